KERNELS = {
 'C09_std': dict(src='kernels/C09_kinds.cpp', flags=['-DNDEBUG']),
 'C09_utl': dict(src='kernels/C09_kinds.cpp', flags=['-DNDEBUG', '-DNMTOOLS_DISABLE_STL', '-DKSUFFIX=_utl']),
}
def _h(name, bounds, unwind=8, quick=None, thorough=None, **kw):
    return dict(name=name, src='harnesses/C09.c', func='h_' + name, kernels=['C09_std', 'C09_utl'], unwind=unwind, bounds=bounds,
                quick=quick or [{'MAXE': 3}], thorough=thorough or [{'MAXE': 4}], **kw)
def _cfgs(e, kas, kbs=(None,), builds=(0, 1)):
    out = []
    for ka in kas:
        for kb in kbs:
            for bd in builds:
                c = {'MAXE': e, 'KA': ka, 'BUILD': bd}
                if kb is not None: c['KB'] = kb
                if bd == 0 and (ka == 2 or kb == 2): c['_mem_gb'] = 10   # std::vector kinds: heap model costs 5-10 GB
                out.append(c)
    return out
ENUM = ' Container kinds and the build configuration are per-query constants, enumerated exhaustively; everything else is symbolic.'
HARNESSES = [
 _h('index_kinds', 'compute_indices/compute_strides on dim-3 shapes, extents 1..MAXE, offset symbolic; std-build kind KA in {static vector, list, tuple, raw C array} and utl-build kind KB in {fixed array, static vector, list, tuple, raw array} vs the std fixed-array result.' + ENUM,
    quick=_cfgs(3, (1, 2, 3, 4), (0, 1, 2, 3, 4), (0,))[::3], thorough=_cfgs(4, (1, 2, 3, 4), (0, 1, 2, 3, 4), (0,))),
 _h('bshape_kinds', 'broadcast_shape of a dim-3 and a dim-2 shape, extents 1..MAXE incl. incompatible ones; operand kinds KA,KB in {array, static vector, list} x build in {std, utl}.' + ENUM,
    quick=[c for c in _cfgs(3, (0, 1, 2), (0, 1, 2)) if not (c['KA'] == 2 and c['KB'] == 2 and c['BUILD'] == 0)],   # std::vector x std::vector: 250-370 s / 12 GB, thorough tier
    thorough=_cfgs(4, (0, 1, 2), (0, 1, 2)) + [dict(c, _timeout=1800, _mem_gb=14) for c in _cfgs(3, (2,), (2,), (0,))]),
 _h('reshape_kinds', 'shape_reshape dim-3 source, 2 signed target entries in -2..MAXE^3 incl. invalid ones; kinds KA,KB in {array, static vector, list} x build.' + ENUM,
    quick=_cfgs(3, (0, 1, 2), (0, 1, 2))[::2], thorough=_cfgs(4, (0, 1, 2), (0, 1, 2))),
 _h('reshape_ctdst', 'shape_reshape of a symbolic run-time dim-3 source (kind KA in {array, static vector, list} x build) to the compile-time CONSTANT target (2,3), and the all-constant (1,3,2)->(2,3), vs the all-run-time call.' + ENUM,
    quick=_cfgs(3, (0, 1, 2)), thorough=_cfgs(4, (0, 1, 2))),
 _h('repeat_clipped', 'view::repeat of a (3,2) hybrid array with per-element repeats (each 1..3, symbolic) given as std::array / static_vector / tuple of clipped_size_t<3> (KA) x build; data and index symbolic; index::cumsum in the same kinds.' + ENUM,
    quick=_cfgs(3, (0, 1, 2)), thorough=_cfgs(3, (0, 1, 2))),
 _h('array_kinds', 'view::transpose on a (2,3) array held as fixed / hybrid / dynamic ndarray_t (KA) x build, data and index symbolic.' + ENUM, quick=[c for c in _cfgs(3, (0, 1, 2)) if not (c['KA'] == 2 and c['BUILD'] == 0)], thorough=[c for c in _cfgs(3, (0, 1, 2)) if not (c['KA'] == 2 and c['BUILD'] == 0)]),
 _h('array_kinds_sum', 'view::sum over a symbolic (possibly negative) axis of a (2,3) fixed / hybrid / dynamic ndarray_t (KA) x build, data and index symbolic.' + ENUM, quick=_cfgs(3, (0, 1)), thorough=_cfgs(3, (0, 1))),
 _h('constants', 'compile-time constant shapes (types, ENUMERATED: (2,3,4); (2,1,4)x(3,1)) vs the run-time functions on the same values; constant x symbolic run-time operand', quick=_cfgs(3, (0,)), thorough=_cfgs(4, (0,))),
]
# ---- family "ctargs": compile-time ARGUMENTS (ct_v<K>, 2_ct / "-1"_ct literals, tuples of constants, nm::True/False) on FIXED-shape operands
# (raw C array and nested std::array) vs the same values as run-time arguments on a hybrid operand. K (per-query constant) selects the instantiation.
CT_FAMS = dict(flip=1, transpose=2, moveaxis=3, swapaxes=4, expand_dims=5, squeeze=6, reshape=7, atleast_nd=8, tile=9, repeat=10, roll=11, take=12, sum=13, cumsum=14,
               reduce_add=15, diagonal=16, tril=17, eye=18, pad=19, slice=20, gen=21, broadcast_to=22, concatenate=23)
# one small TU per view (same source, -DONLY=<section>): the CBMC front end cost grows with the TU, so every query only parses the section it needs
for _n, _id in CT_FAMS.items(): KERNELS['C09_ctargs_' + _n] = dict(src='kernels/C09_ctargs.cpp', flags=['-DNDEBUG', '-DONLY=%d' % _id])
CT_COMMON = (' Both fixed operand kinds (raw C array, nested std::array) are called in every query (generators have no operand); the argument variant K is a per-query constant, enumerated '
             '(FAM selects the kernel section); unless MIX says otherwise the two mixed calls (constant arguments on the hybrid operand, run-time arguments on the raw array) are made and compared too; data (any 32-bit values), fill / initial values and the index are symbolic; dim, shape and size are checked against the NumPy shape written in the harness, the element against the run-time call and the NumPy element.')
def _ct(name, nk, bounds, tu=None, quick=None, deep=(), mix=(1, 1), **kw):
    """nk variants K = 0..nk-1; `quick` (default: all) is the subset run in the quick tier (the thorough tier always runs all); `deep`: variants whose loops run over all 12 cells;
    mix = (quick, thorough) value of MIX: 1 = also the two mixed calls (constant arguments on the hybrid operand, run-time arguments on the raw array), 2 = only the first of them, 0 = none"""
    tu = tu or name
    def cfg(k, m):
        c = {'FAM': CT_FAMS[tu], 'K': k}
        if m != 1: c['MIX'] = m
        if k in deep: c['_unwind'] = 14
        return c
    return dict(name='ctargs_' + name, src='harnesses/C09_ctargs.c', func='h_ctargs_' + name, kernels=['C09_ctargs_' + tu], unwind=8,
                unwindset=['k_fill_u32.0:14', 'k_fill_u32.1:14', 'data.0:14'], bounds=bounds + CT_COMMON, thorough_includes_quick=False,
                quick=[cfg(k, mix[0]) for k in (quick if quick is not None else range(nk))], thorough=[cfg(k, mix[1]) for k in range(nk)], **kw)
HARNESSES += [
 _ct('flip', 9, 'view::flip of a (2,3,2) operand: axis 0,1,2,-1,-2,-3 as integral constants, None, tuples (0,2) and (-1,1) of constants.'),
 _ct('transpose', 7, 'view::transpose of a (2,3,2) operand: the six permutations as tuples of constants, and the default.'),
 _ct('moveaxis', 11, 'view::moveaxis of a (2,3,2) operand: 11 (source, destination) pairs of integral constants incl. negative ones.'),
 _ct('swapaxes', 8, 'view::swapaxes of a (2,3,2) operand: 8 pairs of integral constants incl. negative ones and a1 == a2.'),
 _ct('expand_dims', 8, 'view::expand_dims of a (2,3) operand: axis 0,1,2,-1,-2,-3 as constants, tuples (0,2), (1,3).'),
 _ct('squeeze', 3, 'view::squeeze of a fixed (2,1,3), (1,2,3), (2,3,1) operand.'),
 _ct('reshape', 9, 'view::reshape of a (2,3,2) operand to 9 constant targets: (12),(3,4),(4,3),(2,2,3),(-1),(-1,4),(6,-1),(3,-1,2),(1,12,1,1).'),
 _ct('atleast_nd', 4, 'view::atleast_nd of a (2,3) operand, nd = 1..4 as a constant (the run-time nd gives a dynamic-dimension view: 3 GB per call, so only one run-time-argument call per query; nd = 2 (= the operand dimension) only in the thorough tier).', quick=(0, 2, 3), mix=(2, 2)),
 _ct('tile', 7, 'view::tile of a (2,3) operand, reps as tuples of constants: (2),(1,2),(2,1),(2,2),(2,1,2),(1,1),(3,1,1,2).'),
 _ct('repeat', 9, 'view::repeat of a (2,3) operand: constant scalar repeats with constant axis 0,1,-1,-2 / None, and per-element constant repeats (1,2) axis 0, (2,1,3) axis 1 / -1.'),
 _ct('roll', 15, 'view::roll of a (2,3) operand: 10 (shift, axis) pairs of constants incl. negative shifts, |shift| > extent and negative axes; axis None with shift 1 / -8; tuples of shifts and axes.'),
 _ct('take', 8, 'view::take of a (2,3) operand: a fixed std::array of 4 SYMBOLIC indices (negative ones count from the end) with constant axis 0,1,-1,-2 / None; constant index tuples (2,0,0,1), (1,1,0).'),
 _ct('sum', 15, 'view::sum of a (2,3,2) operand: constant axis 0,1,2,-1,-2,-3, keepdims default / nm::True / nm::False, tuples of constant axes, axis None (scalar / keepdims). '
     'Quick tier: 5 of the 15 variants (axis -2; tuples (-1,0) keepdims True and (1,-1) keepdims False; None; None keepdims; each 3-d reduction query costs 1-3 minutes) without the mixed calls; all 15 in the thorough tier; '
     'every axis / keepdims combination is in the quick tier on the (2,3) operand (ctargs_reduce_add, the function view::sum forwards to).', quick=(4, 11, 12, 13, 14), deep=(13, 14), mix=(0, 1), cbmc_flags=['--slice-formula']),
 _ct('cumsum', 6, 'view::cumsum of a (2,3,2) operand: constant axis 0,1,2,-1,-2,-3. Quick tier: axis -2 without the mixed calls (1-2 minutes per query); all six in the thorough tier; all axes of a (2,3) operand in ctargs_cumsum2.', quick=(4,), mix=(0, 1), cbmc_flags=['--slice-formula']),
 _ct('cumsum2', 4, 'view::cumsum of a (2,3) operand: constant axis 0,1,-1,-2 (quick tier: of the mixed calls only the constant-argument one).', tu='cumsum', mix=(2, 1), cbmc_flags=['--slice-formula']),
 _ct('reduce_add', 9, 'view::reduce_add of a (2,3) operand: constant axis 0,1,-1,-2; symbolic initial value with keepdims nm::True / nm::False; tuples of constant axes (incl. the full reduction to a scalar) (quick tier: of the mixed calls only the constant-argument one).', mix=(2, 1), cbmc_flags=['--slice-formula']),
 _ct('diagonal', 12, 'view::diagonal of a (2,3,2) operand: constant offset 0,1,2 (>= 0 and inside the matrix) and 12 (offset, axis1, axis2) combinations incl. negative axes and the all-default call.'),
 _ct('tril', 7, 'view::tril of a (2,3) operand: default k and constant k = 0,1,2,-1,-2,3.'),
 _ct('triu', 7, 'view::triu of a (2,3) operand: default k and constant k = 0,1,2,-1,-2,3.', tu='tril'),
 _ct('eye', 10, 'view::eye(N, M / None, k) with all arguments constants: 10 combinations, k in -2..3.', tu='eye'),
 _ct('tri', 10, 'view::tri(N, M / None, k) with all arguments constants: 10 combinations, k in -2..3.', tu='eye'),
 _ct('pad', 7, 'view::pad of a (2,3) operand: 7 constant width tuples [before_0, before_1, after_0, after_1], symbolic fill value.'),
 _ct('slice', 12, 'view::slice of a (2,3) operand: 12 item lists with constant parts: (start, stop, step) triples / pairs with None, constant integers, Ellipsis, negative constant starts / stops (a negative constant STEP does not compile).'),
 _ct('arange', 8, 'view::arange with constant (stop), (start, stop), (start, stop, step) incl. negative values, int element type.', tu='gen'),
 _ct('full', 12, 'view::full (symbolic value) / zeros / ones with the shape as a tuple of constants: (2,3), (4), (2,1,3), (1,2,2,2).', tu='gen'),
 _ct('broadcast_to', 4, 'view::broadcast_to of a (2,3) operand to the constant targets (2,3), (1,2,3), (2,2,3), (3,1,2,3).'),
 _ct('broadcast_to13', 4, 'view::broadcast_to of a (1,3) operand to the constant targets (1,3), (2,3), (4,3), (2,3,3).', tu='broadcast_to'),
 _ct('concatenate', 3, 'view::concatenate of two (2,3) operands: constant axis 0, 1 and None.'),
]
OUTSIDE = ['dynamic ndarray_t backed by std::vector (std build): transpose query killed at 11 GB, sum at 12.8 GB - not reached; the utl::vector-backed dynamic kind is covered for transpose; view::sum on the dynamic kind: out of memory at 16 GB (utl build) - not reached', 'gcc vs clang (only clang IR is encoded; g++ is reached by gate and replay)', 'Boost containers', 'clipped shapes', 'the 15 ndarray shape x buffer kinds via cast (3 kinds covered)',
           'constant kinds beyond the enumerated instantiations (types cannot be symbolic)', 'operations other than the listed ones (each C01-C08 harness fixes one kind)',
           'ctargs family: constant-argument instantiations other than the enumerated ones (each K is one type). Rejected by the compiler, hence not observable at run time: '
           'view::slice with a NEGATIVE constant step, e.g. slice(a, tuple{None,None,"-1"_ct}) (index/slice.hpp:833 "no matching conversion for C-style cast from int to unsigned_step_t (aka integral_constant<int,-1>)"); '
           'view::arange(5_ct, 0_ct, "-2"_ct) (index/arange.hpp:63 "constexpr variable shape must be initialized by a constant expression": 5_ct / 0_ct are unsigned long constants, stop-start wraps, the float -> size_t '
           'conversion of the negative quotient is not a constant expression; arange("-1"_ct,"-7"_ct,"-3"_ct) with all-int constants compiles and is covered). '
           'Not exercised because they are known open defects on the run-time side: negative diagonal offsets and offsets beyond the matrix (C04-diagonal-*), negative concatenate axes (C04-concatenate-negative-axis). '
           'diagflat with a constant k is in C04. Fixed ndarray_t (constant shape tuple) as the fixed operand kind of ctargs (raw C arrays and nested std::array are used), clipped-integer arguments ("3:[4]"_ct), '
           'operands other than (2,3) / (2,3,2) / (2,1,3) / (1,3). view::sum / view::cumsum on the 3-d operand: 10 of 15 / 5 of 6 argument variants and the mixed calls only in the thorough tier (a 3-d reduction query costs 1-5 minutes); atleast_nd with nd = 2 only in the thorough tier']
CLAIM = dict(
 text='Differential harnesses: the same nmtools call instantiated on different container kinds (fixed array, bounded static vector, dynamic list, tuple, raw array; '
      'fixed/hybrid/dynamic ndarray) and in two build configurations (std:: containers vs NMTOOLS_DISABLE_STL utl:: containers, same source compiled twice) is shown by the solver '
      'to give identical (success, dim, shape, element) for all symbolic inputs in scope; constant-shape instantiations (enumerated types) equal the run-time computation. '
      'Family ctargs: 28 view functions (flip, transpose, moveaxis, swapaxes, expand_dims, squeeze, reshape, atleast_nd, tile, repeat, roll, take, sum, cumsum, reduce_add, diagonal, tril, triu, eye, tri, pad, slice, '
      'arange, full, zeros, ones, broadcast_to, concatenate) called with compile-time-constant arguments on fixed-shape operands give the same dim, shape, size and element as the call with the same values as run-time '
      'arguments on a hybrid operand (and as the two mixed calls), and dim / shape / size / element equal the NumPy reference, for all data and every index.',
 note='Bounded: dim-3 shapes, extents 1..3 (quick) / 1..4 (thorough), (2,3) arrays; kinds listed in the harness bounds; constants are an enumerated family (ctargs: 228 argument variants, each a per-query constant; operands (2,3), (2,3,2), (2,1,3), (1,3)). gcc/Boost configurations outside the claim.')
