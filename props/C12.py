"""C12: SIMD evaluation equals scalar evaluation (differential: both sides are the real nmtools evaluators).

One kernel source (kernels/C12_simd.cpp) is compiled once per SIMD context and part (element-wise / outer / reductions).
Per-query constants: context, element type, op, element counts / shapes / axis / keepdims. Symbolic: all element data, op parameters."""
SRC = 'kernels/C12_simd.cpp'
CTXS = {  # name -> (CTX id, -m flags, bit width)
    'avx': (1, ['-mavx'], 256), 'sse': (2, ['-msse4.2'], 128), 'v128': (3, [], 128), 'v256': (4, [], 256), 'v512': (5, [], 512),
    'simde': (6, [], 512),    # SIMDe AVX-512 in its portable (no -mavx512f) mode: the emulation layer's generic-vector IR translates
}
PARTS = {'ew': 1, 'outer': 2, 'red': 3, 'tight': 4}
KERNELS = {'C12_%s_%s' % (c, p): dict(src=SRC, flags=['-DNDEBUG', '-DC12_CTX=%d' % i, '-DC12_PART=%d' % pi, '-DKSUFFIX=_' + c] + m)
           for c, (i, m, _) in CTXS.items() for p, pi in PARTS.items()}
OPS = dict(relu=1, relu6=2, sqrt=3, ceil=4, floor=5, softsign=6, hardswish=7, leaky_relu=8, prelu=9, softshrink=10, hardshrink=11, hardtanh=12,
           add=20, subtract=21, multiply=22, divide=23)
# ops whose evaluation contains float arithmetic / rounding / sqrt are decided with those operations as uninterpreted functions, the same
# symbol on the SIMD and on the scalar side (translator mode LL_UF_FLOAT); compare/select/bit operations stay exact
UF_OPS = {'sqrt', 'ceil', 'floor', 'softsign', 'hardswish', 'leaky_relu', 'prelu', 'softshrink', 'add', 'subtract', 'multiply', 'divide'}
UNARY = ['relu', 'sqrt', 'ceil', 'floor', 'relu6', 'hardtanh', 'leaky_relu', 'prelu', 'hardshrink', 'softshrink', 'softsign', 'hardswish']
BINARY = ['add', 'subtract', 'multiply', 'divide']
VEC = ('v128', 'v256', 'v512')

# ---- findings reported by this property: see PENDING_FINDINGS at the end (assertions are kept; regions are excluded ONLY through KF_C12_* macros)


def lanes(ctx, ty): return CTXS[ctx][2] // (64 if ty else 32)


def known(ctx, op):
    """TEMPORARY exclusion macros of the pending findings that apply to (context, op)"""
    k = {}
    if op == 'relu6': k['NAN_FREE'] = 1; k['KF_C12_RELU6_NEGZERO'] = 1
    if op == 'hardtanh': k['NAN_FREE'] = 1; k['KF_C12_HARDTANH_ZERO'] = 1
    if op == 'softshrink': k['KF_C12_SOFTSHRINK_NAN'] = 1
    if op == 'relu' and ctx in VEC: k['KF_C12_RELU_NEGZERO'] = 1
    return k


SORTED_UF = {'leaky_relu', 'prelu'}   # scalar functor computes slope * x, the SIMD path x * slope: commutative operands are canonically ordered


def base(ctx, part, op, ty, exact=False):
    c = {'CTX': CTXS[ctx][0], 'PART': PARTS[part], 'TY': ty, 'OP': OPS[op]}
    if op in UF_OPS and not exact:
        c['LL_UF_FLOAT'] = 1
        if op not in SORTED_UF and ctx != 'simde': c['LL_UF_NOSORT'] = 1   # (SIMDe's emulation layer orders operands differently from the scalar code)
    return c


def ucfg(ctx, op, ty, ns, **kw):
    c = base(ctx, 'ew', op, ty, kw.pop('exact', False)); c['NLIST'] = ','.join(str(n) for n in ns); c['_unwind'] = max(ns) + 2
    c.update(known(ctx, op)); c.update(kw); return c


def b2cfg(ctx, op, ty, lr, lc, rr, rc, **kw):
    c = base(ctx, 'ew', op, ty); c.update(LR=lr, LC=lc, RR=rr, RC=rc); c['_unwind'] = max(lr, rr) * max(lc, rc) + 2
    if (lr * lc == 1 and rr > 1) or (rr * rc == 1 and lr > 1): c['KF_C12_BCAST_11'] = 1
    c.update(kw); return c


def ocfg(ctx, op, ty, n, m, **kw):
    c = base(ctx, 'outer', op, ty); c.update(ON=n, OM=m); c['_unwind'] = n * m + 2; c.update(kw); return c


def o2cfg(ctx, op, ty, r, cc, m, **kw):
    c = base(ctx, 'outer', op, ty); c.update(OR=r, OC=cc, OM=m); c['_unwind'] = r * cc * m + 2; c.update(kw); return c


def rcfg(ctx, op, ty, shape, axis, kd, vmax=3, **kw):
    c = base(ctx, 'red', op, ty, exact=True); c.update(RK=len(shape), AXIS=axis, KD=kd, VMAX=vmax)
    for i, e in enumerate(shape): c['S%d' % i] = e
    n = 1
    for e in shape: n *= e
    c['_unwind'] = n + 2; c.update(kw); return c


def racfg(ctx, op, ty, shape, kd, vmax=3, **kw):
    c = base(ctx, 'red', op, ty, exact=True); c.update(RK=0, KD=kd, VMAX=vmax, S0=shape[0], S1=shape[1]); c['_unwind'] = shape[0] * shape[1] + 2
    c.update(kw); return c


def rep(L): return [1, L - 1, L, L + 1, 2 * L + 3]          # representative counts: below / at / above one pack, two packs + tail
def rep_uf(L): return [L - 1, L + 1, 2 * L + 3]


def H(name, func, ctx, part, bounds, quick, thorough, **kw):
    return dict(name='%s_%s' % (name, ctx), src='harnesses/C12.c', func=func, kernels=['C12_%s_%s' % (ctx, part)], backend='kissat',
                bounds=bounds, quick=quick, thorough=thorough, thorough_includes_quick=True, **kw)


B_UN = ('1-d hybrid array (capacity 72); element counts are per-query constants (NLIST: all listed counts are run in the same query; quick: '
        'representative counts {1, L-1, L, L+1, 2L+3} resp. {L-1, L+1, 2L+3}; thorough: every count 1..4L+1, L = lanes); every element (any bit pattern: '
        'NaN, inf, denormals, -0 unless a listed KF_/NAN_FREE macro excludes it) and the op parameters (slope / alpha / lambda / min_val < max_val) symbolic')
B_BIN = 'two same-shape 1-d hybrid arrays; element counts per-query constants as for unary; every element of both operands symbolic'
B_B2 = ('2-d hybrid operands; shapes lhs (LR,LC), rhs (RR,RC) are per-query constants: same shape, (r,c)x(r,1), (r,c)x(1,c), (r,1)x(1,c), (1,c)x(r,1) '
        'with c around the lane count (quick: c = L+1; thorough: r in 1..3, c in 1..2L+1); every element symbolic')
B_OUT = 'outer op of (ON,) with (OM,) / of (OR,OC) with (OM,); extents per-query constants (OM around the lane count); every element symbolic'
B_RED = ('reduction of a 2-d / 3-d hybrid array over AXIS (per-query constant, incl. negative) with keepdims KD, and axis=None; shape per-query constant; '
         'elements are symbolic small integer-valued floats 0..VMAX (exact in every association order: partial sums < 2^24), float arithmetic exact')

SIMDE_UNARY = ['relu', 'sqrt', 'ceil', 'floor', 'relu6', 'hardtanh', 'leaky_relu', 'prelu', 'softsign']   # the other three do not compile (simde_kxor_mask16)
HARNESSES = []
for ctx in CTXS:
    L = lanes(ctx, 0); Ld = lanes(ctx, 1); x86 = ctx in ('avx', 'sse'); wide = ctx in ('v512', 'simde')
    uops = UNARY if x86 else (['relu', 'sqrt', 'relu6'] if ctx == 'simde' else ['relu', 'ceil', 'relu6', 'leaky_relu', 'softshrink', 'hardswish'] if ctx == 'v256' else ['relu', 'sqrt', 'relu6', 'softshrink'])
    tops = UNARY if x86 else (SIMDE_UNARY if ctx == 'simde' else ['relu', 'sqrt', 'ceil', 'relu6', 'leaky_relu', 'softshrink', 'hardswish'])
    # quick: compare/select-only ops over the representative counts in one query; arithmetic ops (uninterpreted) at L+1 (one pack + scalar tail)
    q = [ucfg(ctx, op, 0, [L + 1] if op in UF_OPS else rep(L)) for op in uops]
    if x86: q += [ucfg(ctx, 'sqrt', 0, [2 * L + 3])]
    q += [ucfg(ctx, op, 1, [Ld + 1] if op in UF_OPS else rep(Ld)) for op in (('relu', 'sqrt', 'hardtanh') if x86 else ('floor',) if ctx == 'v256' else ())]
    # thorough: EVERY count 1..4L+1: compare/select-only ops in chunks of 6 counts per query, arithmetic ops one count per query;
    # double for four ops; the 512-bit contexts enumerate every count for three ops and the representative counts for the rest
    def allcounts(op, ty):
        Lt = lanes(ctx, ty); ns = list(range(1, 4 * Lt + 2))
        if wide and op not in ('relu', 'sqrt', 'leaky_relu'): ns = rep(Lt) + [4 * Lt + 1]
        return [ns[i:i + 6] for i in range(0, len(ns), 6)] if op not in UF_OPS else [[n] for n in ns]
    t = [ucfg(ctx, op, 0, ns) for op in tops for ns in allcounts(op, 0)]
    t += [ucfg(ctx, op, 1, ns) for op in tops if op in ('relu', 'sqrt', 'hardtanh', 'leaky_relu') for ns in allcounts(op, 1)]
    t += [ucfg(ctx, op, 0, [L + 1], exact=True) for op in ('ceil', 'floor')]      # exact rounding functions (CBMC's ceilf/floorf on both sides)
    HARNESSES.append(H('unary', 'h_unary', ctx, 'ew', B_UN, q, t))
    bops = BINARY if x86 else ['add', 'divide']
    q = [ucfg(ctx, op, 0, [L + 1]) for op in bops] + ([ucfg(ctx, 'add', 0, [2 * L + 3])] if x86 else []) + ([ucfg(ctx, 'multiply' if ctx != 'avx' else 'subtract', 1, [Ld + 1])] if not wide else [])
    t = [ucfg(ctx, op, 0, [n]) for op in (BINARY if not wide else ['add', 'divide']) for n in range(1, 4 * L + 2)]
    t += [ucfg(ctx, op, 1, [n]) for op in ('add', 'multiply') for n in range(1, 4 * Ld + 2)]
    t += [ucfg(ctx, op, 0, [L + 1], exact=True, _timeout=900) for op in ('add', 'subtract')]   # exact IEEE add/sub on both sides (cross-check of the abstraction)
    HARNESSES.append(H('binary', 'h_binary', ctx, 'ew', B_BIN, q, t))
    pats = lambda r, c: [(r, c, r, 1), (r, c, 1, c), (r, 1, 1, c), (1, c, r, 1), (r, c, r, c), (r, 1, r, c), (1, c, r, c)]
    qop = {'avx': 'add', 'sse': 'multiply', 'v128': 'subtract', 'v256': 'divide', 'v512': 'add', 'simde': 'add'}[ctx]
    q = [b2cfg(ctx, qop, 0, *p) for p in (pats(2, L + 1)[:4] if x86 else pats(2, L + 1)[:2] if not wide else [])]
    q += [b2cfg(ctx, 'add', 0, 2, L + 1, 1, 1)] if ctx == 'avx' else []          # (r,c) x (1,1): pending finding F-C12-bcast-11
    t = [b2cfg(ctx, 'add', 0, *p) for r in ((1, 2, 3) if x86 else (2,)) for c in (range(1, 2 * L + 2) if x86 else (L - 1, L, L + 1, 2 * L + 1)) for p in pats(r, c)]
    t += [b2cfg(ctx, op, 0, *p) for op in BINARY[1:] for c in (L - 1, L, L + 1) for p in pats(2, c)]
    t += [b2cfg(ctx, 'add', 1, *p) for p in pats(2, Ld + 1)] + [b2cfg(ctx, 'add', 0, 2, L + 1, 1, 1), b2cfg(ctx, 'add', 0, 1, 1, 2, L + 1)]
    HARNESSES.append(H('binary2', 'h_binary2', ctx, 'ew', B_B2, q, t))
    oop = {'avx': 'add', 'sse': 'multiply', 'v128': 'subtract', 'v256': 'add', 'v512': 'multiply', 'simde': 'add'}[ctx]
    q = ([ocfg(ctx, oop, 0, 2, L + 1)] if ctx != 'simde' else []) + ([ocfg(ctx, 'subtract', 0, 3, L - 1), ocfg(ctx, 'add', 1, 2, Ld + 1)] if x86 else [])
    t = [ocfg(ctx, op, 0, n, m) for op in (('add', 'subtract', 'multiply') if x86 else ('add',)) for n in ((1, 2, 3) if x86 else (2,)) for m in range(1, 2 * L + 2)]
    if ctx == 'simde': t = [ocfg(ctx, 'add', 0, 2, L + 1)] + t
    HARNESSES.append(H('outer', 'h_outer', ctx, 'outer', B_OUT, q, t))
    # exact-size (std::array) operands: memory safety of packed loads/stores and tails against the true extent
    tn = {4: (3, 5, 11), 8: (7, 9, 19), 16: (17, 35)}[L]
    tcfg = lambda op, n: dict(base(ctx, 'tight', op, 0), TIGHTN=n, _unwind=n + 2)
    HARNESSES.append(H('tight', 'h_tight', ctx, 'tight', 'std::array<float,TIGHTN> operands (exactly TIGHTN cells, TIGHTN a per-query constant from {L-1, L+1, 2L+3}); relu and add; every element symbolic; '
                       'CBMC object bounds on every packed load/store and tail access', [tcfg('relu', tn[1]), tcfg('add', tn[1])] if ctx != 'simde' else [tcfg('relu', tn[0])],
                       [tcfg(op, n) for op in ('relu', 'add') for n in tn]))
    if ctx in ('avx', 'sse', 'v256'):
        HARNESSES.append(H('outer2', 'h_outer2', ctx, 'outer', B_OUT, [o2cfg(ctx, 'add', 0, 1, 2, L + 1)],
                           [o2cfg(ctx, op, 0, 2, 2, m) for op in ('add', 'multiply') for m in range(1, 2 * L + 2)]))
    # reductions (exact float arithmetic, small integer-valued inputs)
    if ctx in ('avx', 'sse', 'v256', 'simde'):
        q = [rcfg(ctx, 'add', 0, sh, ax, kd) for sh, ax, kd in ((((2, L + 1), 0, 1), ((1, L + 1), 1, 1), ((2, L + 1), -1, 0)) if x86 else (((2, L + 1), 0, 0), ((1, L + 1), 1, 1)) if ctx != 'simde' else ())]
        q += [rcfg(ctx, 'multiply', 0, (2, L + 1), 0, 1), rcfg(ctx, 'multiply', 0, (1, L + 1), 1, 0, KF_C12_MULREDUCE_FULL=1)] if ctx == 'avx' else []
        t = [rcfg(ctx, 'add', 0, (r, c), ax, kd) for r in (1, 2) for c in (range(1, 2 * L + 2) if x86 else (L - 1, L, L + 1, 2 * L + 1)) for ax in (0, 1, -1, -2) for kd in (0, 1)]
        t += [rcfg(ctx, 'add', 0, (3, c), ax, 1, _timeout=1800) for c in (L - 1, L + 1) for ax in (0, 1)]
        t += [rcfg(ctx, 'add', 1, (2, Ld + 1), ax, kd) for ax in (0, 1) for kd in (0, 1)]
        t += [rcfg(ctx, 'multiply', 0, (2, c), ax, kd, KF_C12_MULREDUCE_FULL=1) for c in (L - 1, L, L + 1) for ax in (0, 1) for kd in (0, 1)]
        HARNESSES.append(H('reduce2', 'h_reduce2', ctx, 'red', B_RED, q, t))
        if ctx != 'simde':
            q = [rcfg(ctx, 'add', 0, (1, 2, L + 1), ax, kd) for ax, kd in (((1, 0), (2, 1)) if ctx == 'avx' else ((2, 0),))]
            t = [rcfg(ctx, 'add', 0, (2, r, c), ax, kd) for r in (1, 2) for c in (L - 1, L, L + 1) for ax in (0, 1, 2, -1) for kd in (0, 1)]
            HARNESSES.append(H('reduce3', 'h_reduce3', ctx, 'red', B_RED, q, t))
        q = [racfg(ctx, 'add', 0, (1, L + 1), kd) for kd in ((0, 1) if ctx != 'simde' else (0,))] + ([racfg(ctx, 'multiply', 0, (1, L + 1), 0, KF_C12_MULREDUCE_FULL=1)] if ctx == 'avx' else [])
        t = [racfg(ctx, 'add', 0, (1, c), kd) for c in (range(1, 2 * L + 2) if x86 else (L - 1, L, L + 1, 2 * L + 1)) for kd in (0, 1)]
        t += [racfg(ctx, 'add', 0, (2, c), kd, _timeout=1800) for c in (L - 1, L, L + 1) for kd in (0, 1)]
        t += [racfg(ctx, 'multiply', 0, (1, c), kd, KF_C12_MULREDUCE_FULL=1) for c in (L - 1, L + 1) for kd in (0, 1)]
        HARNESSES.append(H('reduceall', 'h_reduceall', ctx, 'red', B_RED, q, t))

def _pending():
    LAN = {c: lanes(c, 0) for c in CTXS}
    out = []
    def unary(fid, ctxs, define, p0, p1, x, op, what):
        for c in ctxs:
            out.append(dict(id=fid, harness='unary_' + c, exclude_define=define, witness_inputs=[p0, p1] + [x] * LAN[c],
                            witness_config={'NLIST': str(LAN[c]), 'TY': 0, '_unwind': LAN[c] + 2}, configs=[{'OP': OPS[op]}], what=what))
    unary('F-C12-relu6-negzero', ['avx', 'sse', 'simde'], 'KF_C12_RELU6_NEGZERO', '0x0', '0x0', '0x80000000', 'relu6',
          'relu6(-0.0): scalar functor returns -0.0, the x86 SSE/AVX (and SIMDe) SIMD path max(min(x,6),0) returns +0.0 (maxps returns its second operand for equal zeros); a full pack of -0.0')
    unary('F-C12-hardtanh-zero-bound', ['avx', 'sse', 'simde'], 'KF_C12_HARDTANH_ZERO', '0x0', '0x3f800000', '0x80000000', 'hardtanh',
          'hardtanh(x=-0.0, min_val=+0.0, max_val=1): scalar functor returns the input -0.0, the x86 SIMD path min(max(x,min_val),max_val) returns the bound +0.0 (same for a zero max_val)')
    unary('F-C12-softshrink-nan', ['avx', 'sse', 'v128', 'v256', 'v512'], 'KF_C12_SOFTSHRINK_NAN', '0x3f000000', '0x0', '0x7fc00000', 'softshrink',
          'softshrink(NaN, lambda=0.5): scalar functor returns 0 (neither comparison holds), every SIMD formulation returns NaN')
    unary('F-C12-relu-negzero-vecext', ['v128', 'v256', 'v512'], 'KF_C12_RELU_NEGZERO', '0x0', '0x0', '0x80000000', 'relu',
          'relu(-0.0): scalar functor returns +0.0, the vector-extension SIMD path fmax(-0.0, 0.0) returns -0.0 (x86 SSE/AVX agree with the scalar functor)')
    for c in ('v128', 'v256', 'v512'):
        n = {4: 5, 8: 9, 16: 35}[LAN[c]]
        out.append(dict(id='F-C12-relu-negzero-vecext', harness='tight_' + c, exclude_define='KF_C12_RELU_NEGZERO', witness_inputs=['0x80000000', '0x0'] * n,
                        witness_config={'OP': 1, 'TIGHTN': n, 'TY': 0, '_unwind': n + 2}, configs=[{'OP': 1}],
                        what='relu(-0.0) on a std::array operand: scalar functor returns +0.0, the vector-extension SIMD path fmax(-0.0, 0.0) returns -0.0'))
    for c in CTXS:
        L = LAN[c]
        out.append(dict(id='F-C12-bcast-11', harness='binary2_' + c, exclude_define='KF_C12_BCAST_11', witness_inputs=['0x3f800000'] * (2 * (L + 1) + 1),
                        witness_config={'LR': 2, 'LC': L + 1, 'RR': 1, 'RC': 1, 'OP': 20, 'TY': 0, '_unwind': 2 * (L + 1) + 2}, configs=[{'RR': 1, 'RC': 1}, {'LR': 1, 'LC': 1}],
                        what='add((2,L+1) ones, (1,1) [[1]], SIMD context): row 1 of the result is 1+0 instead of 2: index::binary_2d_simd tags the one-column operand BROADCAST with '
                             'index = row and the evaluator reads operand[row], beyond the single element of a (1,1) operand (stale buffer cell; out of bounds for a tight buffer)'))
        if c in ('avx', 'sse', 'v256', 'simde'):
            for hn, wc in (('reduceall', {'S0': 1, 'S1': L + 1, 'KD': 0, 'OP': 22, 'TY': 0, 'RK': 0, 'VMAX': 3, '_unwind': L + 3}),
                           ('reduce2', {'S0': 1, 'S1': L + 1, 'AXIS': 1, 'KD': 0, 'OP': 22, 'TY': 0, 'RK': 2, 'VMAX': 3, '_unwind': L + 3})):
                out.append(dict(id='F-C12-mulreduce-full', harness='%s_%s' % (hn, c), exclude_define='KF_C12_MULREDUCE_FULL', witness_inputs=['0x1'] * (L + 1), witness_config=wc,
                                configs=[{'OP': 22}],
                                what='multiply.reduce of L+1 ones down to ONE element (axis=None, or an axis that leaves one element) with a SIMD context returns 0, scalar 1: '
                                     'eval_reduction starts the full reduction from set1(0) instead of the op identity (evaluator/ufunc.hpp:203)'))
    return out


PENDING_FINDINGS = _pending()

OUTSIDE = [
 'NaN inputs of relu6 and hardtanh (stated assumption NAN_FREE; the x86 and fmin/fmax formulations return the clamp bound where the scalar functor returns NaN: replayed witness relu6(NaN) = 6 vs NaN)',
 'NaN payload/sign bits of NaN results (any NaN equals any NaN in the comparison)',
 'float arithmetic itself: + - * / sqrt ceil floor are the same uninterpreted function on both sides (LL_UF_FLOAT); exact IEEE add/sub/ceil/floor only in the listed thorough "exact" queries; '
 'exact multiply/divide did not return (float multiply N=9 AVX: no verdict in 600 s with kissat)',
 'reductions on arbitrary floats (re-association changes rounding; the property waives it): inputs restricted to small integer-valued floats; 3-d reductions with more than (2,2,L+1) elements and (3,c) horizontal reductions only in thorough (no verdict in 900 s at (3,9) VMAX=15)',
 '2-d x 1-d broadcast ((r,c) x (c,)) under a SIMD context: does not compile for fixed-dim operands (static_assert in utils::isequal on shapes of different length) - nothing to evaluate',
 'default std::vector-backed result of broadcasting ufuncs: the result type is requested as a hybrid array via the public output-type argument (dynamic result: 151 s at n=9 vs 2 s)',
 'SIMDe AVX-512: hardswish, softshrink, hardshrink do not compile with the installed SIMDe (simde_kxor_mask16/8 undeclared); SIMDe runs in its portable mode (no -mavx512f)',
 'matmul SIMD (evaluator/matmul.hpp, index/matmul.hpp): not attempted', 'integer element types (AVX integer ops need AVX2; eval_unary is float-only)', 'column-major operands',
 'element counts > 4*lanes+1, 2-d shapes beyond 3 x (2*lanes+1)',
 'memory safety against the LOGICAL extent for anything but relu/add on 1-d operands: the hybrid operands of the other harnesses live in capacity-sized storage (72 / 160 cells), so CBMC\'s '
 'object bounds catch accesses outside that storage, not a packed access between the logical size and the capacity; the tight_* harnesses (std::array operands of exactly n cells, '
 'n in {L-1, L+1, 2L+3}) close this for eval_unary and eval_binary SAME_SHAPE; std::vector-backed exact-size operands gave no verdict (CBMC ran out of memory after 170 s at n=5, SSE)',
 'full (out_size == 1) add reductions over more than ~14 elements (AVX (2,17) and SSE (2,8): no verdict in 1800 s each); thorough lists (1,c) for every c and (2,c) for c in L-1..L+1',
]
ASSUMPTIONS = [
 'NaN inputs are excluded for relu6 and hardtanh only (macro NAN_FREE): x86 minps/maxps and fmin/fmax return the non-NaN operand, the scalar functor returns NaN',
 'any NaN result equals any NaN result (payload and sign of NaNs produced by arithmetic are not modelled by CBMC and depend on operand order on x86)',
 'hardtanh is asserted for min_val < max_val, softshrink for lambda >= 0 (the domains PyTorch accepts); all other parameters (slope, alpha, lambda of hardshrink) are unconstrained floats',
 'LL_UF_FLOAT: float + - * /, sqrt and ceil/floor/... are uninterpreted functions (same symbol in the scalar code, in every vector lane and in the models of the x86 intrinsics), '
 'with NaN-in => NaN-out kept and, for leaky_relu/prelu, commutative operands canonically ordered; sound for equalities; compare/select/bit operations, loads/stores and index arithmetic are exact',
 'x86 intrinsic models in engine/ll2c.py (max/min/round/cmp/blendv/movmsk/hadd/sqrt lane-wise; roundps under the default MXCSR rounding mode) - validated per run by the differential gate against the real g++ -mavx/-msse4.2 build',
 'reductions: elements are integer-valued floats in 0..VMAX so that every association order is exact',
 'pending findings (PENDING_FINDINGS) are excluded through their KF_C12_* macros only once they are registered in known_findings.json; until then their queries report VIOLATION',
]
CLAIM = dict(
 text='For x86 SSE, x86 AVX, vector-extension 128/256/512 and SIMDe AVX-512 contexts the solver shows that evaluating unary (relu, relu6, sqrt, ceil, floor, hardtanh, leaky_relu, prelu, '
      'hardshrink, softshrink, softsign, hardswish), same-shape and 2-d broadcast binary (add, subtract, multiply, divide), outer and add/multiply reduction views with the SIMD context returns '
      'the same shape and bit-identical elements (-0.0 distinguished from +0.0, NaN ~ NaN) as the default scalar evaluator for every element count 1..4*lanes+1 / listed shape with all element '
      'data and op parameters symbolic, and that no packed load/store or tail access leaves its buffer (CBMC bounds obligations on the translated evaluator) - outside the registered finding regions.',
 note='Element counts, shapes, axis, keepdims, op, element type and context are per-query constants (quick: representative counts; thorough: exhaustive ranges). Arithmetic is abstracted '
      'identically on both sides (LL_UF_FLOAT) except in reductions (exact, small-integer inputs) and the exact cross-check queries. Trusted: clang-14 -O1 lowering, engine/ll2c.py incl. its '
      'x86 intrinsic models, CBMC + kissat; validated per run by the gate (translated C vs g++ build with the real instructions, 20000 samples per harness) and the witness assertions.')
