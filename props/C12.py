"""C12: SIMD evaluation equals scalar evaluation (differential: both sides are the real nmtools evaluators)."""
SRC = 'kernels/C12_simd.cpp'
CTXS = {  # name -> (CTX id, -m flags, bit width)
    'avx': (1, ['-mavx'], 256), 'sse': (2, ['-msse4.2'], 128), 'v128': (3, [], 128), 'v256': (4, [], 256), 'v512': (5, [], 512),
}
KERNELS = {'C12_' + c: dict(src=SRC, flags=['-DNDEBUG', '-DC12_CTX=%d' % i, '-DKSUFFIX=_' + c] + m) for c, (i, m, _) in CTXS.items()}
OPS = dict(relu=1, relu6=2, sqrt=3, ceil=4, floor=5, softsign=6, hardswish=7, leaky_relu=8, prelu=9, softshrink=10, hardshrink=11, hardtanh=12,
           add=20, subtract=21, multiply=22, divide=23)
# ops whose two evaluations contain float arithmetic / rounding / sqrt: decided with those operations as uninterpreted functions (LL_UF_FLOAT)
UF_OPS = {'sqrt', 'ceil', 'floor', 'softsign', 'hardswish', 'leaky_relu', 'prelu', 'softshrink', 'add', 'subtract', 'multiply', 'divide'}
UNARY = ['relu', 'sqrt', 'ceil', 'floor', 'relu6', 'hardtanh', 'leaky_relu', 'prelu', 'hardshrink', 'softshrink', 'softsign', 'hardswish']
BINARY = ['add', 'subtract', 'multiply', 'divide']


def lanes(ctx, ty): return CTXS[ctx][2] // (64 if ty else 32)


def cfg(ctx, op, ty, ns=None, exact=False, **kw):
    L = lanes(ctx, ty)
    c = {'CTX': CTXS[ctx][0], 'TY': ty, 'OP': OPS[op]}
    if op in UF_OPS and not exact: c['LL_UF_FLOAT'] = 1
    if ns is not None: c['NLIST'] = ','.join(str(n) for n in ns)
    nmax = max(ns) if ns is not None else 4 * L + 1
    c['_unwind'] = nmax + 2
    c.update(kw); return c


HARNESSES = []
for ctx in CTXS:
    HARNESSES.append(dict(name='unary_' + ctx, src='harnesses/C12.c', func='h_unary', kernels=['C12_' + ctx], backend='kissat',
                          bounds='1-d hybrid array; element counts listed per query (NLIST; default {1, L-1, L, L+1, 2L+3, 4L+1}, L = lanes); all elements and op parameters symbolic (any bit pattern)',
                          quick=[cfg(ctx, 'relu6', 0, [lanes(ctx, 0) + 1], NAN_FREE=1), cfg(ctx, 'hardtanh', 0, [lanes(ctx, 0) + 1], NAN_FREE=1), cfg(ctx, 'softshrink', 0, [lanes(ctx, 0) + 1], NAN_FREE=1)], thorough=[]))
    HARNESSES.append(dict(name='binary_' + ctx, src='harnesses/C12.c', func='h_binary', kernels=['C12_' + ctx], backend='kissat',
                          bounds='two same-shape 1-d hybrid arrays; element counts listed per query; all elements symbolic',
                          quick=[cfg(ctx, op, 0, [lanes(ctx, 0) + 1]) for op in BINARY[:1]], thorough=[]))
OUTSIDE = []
ASSUMPTIONS = []
CLAIM = dict(text='', note='')
