import os
KERNELS = {'C05_slice': dict(src='kernels/C05_slice.cpp', flags=['-DNDEBUG'])}
# Open finding classes (regions are predicates in harnesses/C05.c). C05_OPEN=<class>[,<class>] drops the exclusion(s) again
# (used to regenerate the witnesses: ./check C05 --only packed1 with C05_OPEN=EMPTY prints the VIOLATION + replay file).
_OPEN = set(x for x in os.environ.get('C05_OPEN', '').split(',') if x)
def _kf(*classes):
    return {'KF_C05_' + c: 1 for c in classes if c not in _OPEN}
PATS = {  # name: (has start, has stop, has step, finding classes that intersect the pattern's domain)
 'nnn': (0, 0, 0, ()), 'inn': (1, 0, 0, ('CLAMP', 'NEGSTART')), 'nin': (0, 1, 0, ('EMPTY', 'CLAMP')), 'iin': (1, 1, 0, ('EMPTY', 'CLAMP', 'NEGSTART')),
 'nni': (0, 0, 1, ()), 'ini': (1, 0, 1, ('EMPTY', 'CLAMP', 'NEGSTART')), 'nii': (0, 1, 1, ('EMPTY', 'CLAMP', 'NEGSTEP')),
 'iii': (1, 1, 1, ('EMPTY', 'CLAMP', 'NEGSTEP', 'NEGSTART')),
 'nn': (0, 0, 0, ()), 'in': (1, 0, 0, ('CLAMP', 'NEGSTART')), 'ni': (0, 1, 0, ('EMPTY', 'CLAMP')), 'ii': (1, 1, 0, ('EMPTY', 'CLAMP', 'NEGSTART')),
}
def _pat(p, maxn=6, **kw):
    hs, hp, he, kf = PATS[p]
    c = {'PAT': p, 'HS': hs, 'HP': hp, 'HE': he, 'MAXN': maxn}; c.update(_kf(*kf)); c.update(kw); return c
S1 = 'one axis: extent n in 1..MAXN, start/stop in [-(n+2), n+2], step in {-3..3}\\{0}, element position k: all symbolic; the None/int pattern of (start,stop,step) is the per-query constant PAT'
HARNESSES = [
 dict(name='packed1', src='harnesses/C05.c', func='h_packed1', kernels=['C05_slice'], unwind=4,
      bounds=S1 + ' (index::shape_slice / index::slice on a std::array shape; 8 three-part and 4 two-part patterns)',
      quick=[_pat(p) for p in PATS], thorough=[_pat(p, 12) for p in PATS]),
]
FAMS = {2: ['e', 'es', 'se', 'ei', 'ie', 'is', 'si', 'ss', 'ses', 'ii'],
        3: ['e', 'se', 'es', 'ses', 'ie', 'ei', 'ies', 'sei', 'iei', 'ess', 'sse', 'sis', 'isi', 'iis', 'sss', 'sess']}
ALLKF = ('EMPTY', 'CLAMP', 'NEGSTEP', 'NEGSTART')
def _fam(d, f, maxf=4, **kw):
    c = {'FAM': f, 'DIM': d, 'MAXF': maxf}
    if 's' in f: c.update(_kf(*ALLKF))
    if f == 'ii' and 'CONSTK' not in kw: c['NOIDX'] = 1
    c.update(kw); return c
def all_fams(dim):
    import itertools
    out = []
    for n in range(1, dim + 2):
        for t in itertools.product('ise', repeat=n):
            ne = t.count('e'); nn = n - ne
            if ne <= 1 and ((ne == 1 and nn <= dim) or (ne == 0 and nn == dim)): out.append(''.join(t))
    return out
HARNESSES += [
 dict(name='fam', src='harnesses/C05.c', func='h_fam', kernels=['C05_slice'], unwind=6,
      bounds='packed index::shape_slice / index::slice on 2 and 3 axes; the family (which items are integers i, slices s = (int,int,int), the ellipsis e) is the per-query constant FAM; '
             'every extent 1..MAXF, every slice start/stop in [-(n+2),n+2], step in {-3..3}\\{0}, every integer in [-n,n-1], every result index: symbolic',
      quick=[_fam(d, f) for d in (2, 3) for f in FAMS[d]], thorough=[_fam(d, f, 6) for d in (2, 3) for f in FAMS[d]]),
 dict(name='dyn', src='harnesses/C05.c', func='h_dyn', kernels=['C05_slice'], unwind=6,
      bounds='index::shape_dynamic_slice / dynamic_slice, ONE instantiation per dim: list of either<int, either<array<int,3>, ellipsis>> (LISTK=_sv: bounded static_vector list, else std::vector); '
             'the item kinds are run-time values of the kernel, enumerated exhaustively as the per-query constant FAM (every sequence of i/s/e with at most one e that addresses DIM axes: 21 for 2 axes, 57 for 3); values as in fam',
      quick=[_fam(2, f, 3, LISTK='_sv', CONSTK=1) for f in all_fams(2)] + [_fam(3, f, 3, LISTK='_sv', CONSTK=1) for f in all_fams(3)[::5]],
      thorough=[_fam(d, f, 4, LISTK='_sv', CONSTK=1) for d in (2, 3) for f in all_fams(d)] + [_fam(2, f, 3, CONSTK=1) for f in all_fams(2)]),
]
OUTSIDE = []
ASSUMPTIONS = []
PENDING_FINDINGS = []
CLAIM = dict(text='TBD', note='TBD')
