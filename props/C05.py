import os
KERNELS = {'C05_slice': dict(src='kernels/C05_slice.cpp', flags=['-DNDEBUG']), 'C05_fam': dict(src='kernels/C05_fam.cpp', flags=['-DNDEBUG']),
           'C05_view': dict(src='kernels/C05_view.cpp', flags=['-DNDEBUG'])}
# Open finding classes (regions are predicates in harnesses/C05.c). C05_OPEN=<class>[,<class>] drops the exclusion(s) again
# (used to regenerate the witnesses: ./check C05 --only packed1 with C05_OPEN=EMPTY prints the VIOLATION + replay file).
_OPEN = set(x for x in os.environ.get('C05_OPEN', '').split(',') if x)
def _kf(*classes):
    return {'KF_C05_' + c: 1 for c in classes if c not in _OPEN}
PATS = {  # name: (has start, has stop, has step, finding classes that intersect the pattern's domain)
 'nnn': (0, 0, 0, ()), 'inn': (1, 0, 0, ('CLAMP', 'NEGSTART')), 'nin': (0, 1, 0, ('CLAMP',)), 'iin': (1, 1, 0, ('EMPTY', 'CLAMP', 'NEGSTART')),
 'nni': (0, 0, 1, ()), 'ini': (1, 0, 1, ('CLAMP', 'NEGSTART')), 'nii': (0, 1, 1, ('CLAMP', 'NEGSTEP')),
 'iii': (1, 1, 1, ('EMPTY', 'CLAMP', 'NEGSTEP', 'NEGSTART')),
 'nn': (0, 0, 0, ()), 'in': (1, 0, 0, ('CLAMP', 'NEGSTART')), 'ni': (0, 1, 0, ('CLAMP',)), 'ii': (1, 1, 0, ('EMPTY', 'CLAMP', 'NEGSTART')),
}
def _pat(p, maxn=6, **kw):
    hs, hp, he, kf = PATS[p]
    c = {'PAT': p, 'HS': hs, 'HP': hp, 'HE': he, 'MAXN': maxn}; c.update(_kf(*kf)); c.update(kw); return c
S1 = 'one axis: extent n in 1..MAXN, start/stop in [-(n+2), n+2], step in {-3..3}\\{0}, element position k: all symbolic; the None/int pattern of (start,stop,step) is the per-query constant PAT'
HARNESSES = [
 dict(name='packed1', src='harnesses/C05.c', func='h_packed1', kernels=['C05_slice'], unwind=4,
      bounds=S1 + ' (index::shape_slice / index::slice on a std::array shape; 8 three-part and 4 two-part patterns)',
      quick=[_pat(p) for p in PATS], thorough=[_pat(p, 12) for p in PATS]),
]
FAMS = {2: ['e', 'es', 'se', 'ei', 'ie', 'is', 'si', 'ss', 'ses', 'ii'],
        3: ['e', 'se', 'es', 'ses', 'ie', 'ei', 'ies', 'sei', 'iei', 'ess', 'sse', 'sis', 'isi', 'iis', 'sss', 'sess']}
SHORT = [(2, 's'), (2, 'i'), (3, 'ss'), (3, 'is')]
ALLKF = ('EMPTY', 'CLAMP', 'NEGSTEP', 'NEGSTART')
def _fam(d, f, maxf=4, **kw):
    c = {'FAM': f, 'DIM': d, 'MAXF': maxf}
    if 's' in f: c.update(_kf(*ALLKF))
    if f == 'ii' and 'CONSTK' not in kw: c['NOIDX'] = 1
    c.update(kw); return c
def all_fams(dim):
    import itertools
    out = []
    for n in range(1, dim + 2):
        for t in itertools.product('ise', repeat=n):
            ne = t.count('e'); nn = n - ne
            if ne <= 1 and ((ne == 1 and nn <= dim) or (ne == 0 and nn == dim)): out.append(''.join(t))
    return out
HARNESSES += [
 dict(name='fam', src='harnesses/C05.c', func='h_fam', kernels=['C05_fam'], unwind=6,
      bounds='packed index::shape_slice / index::slice on 2 and 3 axes; the family (which items are integers i, slices s = (int,int,int), the ellipsis e) is the per-query constant FAM; '
             'every extent 1..MAXF, every slice start/stop in [-(n+2),n+2], step in {-3..3}\\{0}, every integer in [-n,n-1], every result index: symbolic',
      quick=[_fam(d, f) for d in (2, 3) for f in FAMS[d]] + ([_fam(d, f) for d, f in SHORT] if 'SHORT' in _OPEN else []), thorough=[_fam(d, f, 6) for d in (2, 3) for f in FAMS[d]]),
 dict(name='dyn', src='harnesses/C05.c', func='h_dyn', kernels=['C05_fam'], unwind=6,
      bounds='index::shape_dynamic_slice / dynamic_slice, ONE instantiation per dim: list of either<int, either<array<int,3>, ellipsis>> (LISTK=_sv: bounded static_vector list, else std::vector); '
             'the item kinds are run-time values of the kernel, enumerated exhaustively as the per-query constant FAM (every sequence of i/s/e with at most one e that addresses DIM axes: 21 for 2 axes, 57 for 3); values as in fam',
      quick=[_fam(2, f, 3, LISTK='_sv', CONSTK=1) for f in all_fams(2)] + [_fam(3, f, 3, LISTK='_sv', CONSTK=1) for f in all_fams(3)[3::8]],
      thorough=[_fam(d, f, 4, LISTK='_sv', CONSTK=1) for d in (2, 3) for f in all_fams(d)] + [_fam(2, f, 3, CONSTK=1) for f in all_fams(2)]),
]
HARNESSES += [
 dict(name='short', src='harnesses/C05.c', func='h_dyn', kernels=['C05_fam'], unwind=6,
      bounds='dynamic encoding, item kinds = per-query constant FAM (one item per axis, no ellipsis), but only the first ni items are passed, ni symbolic in 1..DIM: NumPy takes the unaddressed axes whole',
      quick=[dict(_fam(d, f, 3, LISTK='_sv', CONSTK=1, SHORTNS=1), **_kf('SHORT')) for d, f in ((2, 'ss'), (2, 'is'), (3, 'sis'), (3, 'iss'))]),
]
HARNESSES += [
 dict(name='famsame', src='harnesses/C05.c', func='h_famsame', kernels=['C05_fam'], unwind=6,
      bounds='differential, NO finding region excluded: packed instantiation FAM vs the dynamic encoding (static_vector of either) with the same item kinds: same dim, extents and source index; '
             'extents 1..MAXF, every part in [-(MAXF+2), MAXF+2] (steps != 0), integers unconstrained in that range, result index symbolic',
      quick=[{'FAM': f, 'DIM': d, 'MAXF': 3, 'LISTK': '_sv'} for d in (2, 3) for f in FAMS[d] if f != 'ii'][::2],
      thorough=[{'FAM': f, 'DIM': d, 'MAXF': 4, 'LISTK': '_sv'} for d in (2, 3) for f in FAMS[d] if f != 'ii']),
]
def _same(a_s, a_i, b_s, b_i, maxn=6): return {'DAS': a_s, 'DAI': a_i, 'DBS': b_s, 'DBI': b_i, 'MAXN': maxn}
_SAME = [('k_shape1_%s' % p, 'k_index1_%s' % p, 'k_dshape1_%s' % p, 'k_dindex1_%s' % p) for p in ('nnn', 'inn', 'nin', 'iin', 'nni', 'ini', 'nii', 'iii')] + [
    ('k_shape1_iii', 'k_index1_iii', 'k_dshape1_a3', 'k_dindex1_a3'), ('k_shape1_ii', 'k_index1_ii', 'k_dshape1_a2', 'k_dindex1_a2'), ('k_shape1_ni', 'k_index1_ni', 'k_dshape1_ni', 'k_dindex1_ni'),
    ('k_shape1_iii', 'k_index1_iii', 'k_apply_shape1_iii', 'k_apply_index1_iii'), ('k_shape1_iii', 'k_index1_iii', 'k_shape1_iii_sv', 'k_index1_iii_sv'),
    ('k_shape1_iii', 'k_index1_iii', 'k_shape1_iii_vec', 'k_index1_iii_vec'), ('k_dshape1_a3', 'k_dindex1_a3', 'k_dshape1_a3_sv', 'k_dindex1_a3'),
    ('k_shape1_iin', 'k_index1_iin', 'k_shape1_ii', 'k_index1_ii'), ('k_shape1_inn', 'k_index1_inn', 'k_shape1_in', 'k_index1_in')]
HARNESSES += [
 dict(name='dyn1', src='harnesses/C05.c', func='h_packed1', kernels=['C05_slice'], unwind=4,
      bounds=S1 + ' (index::shape_dynamic_slice / dynamic_slice with a one-item std::vector of tuples with None parts (8 patterns + (None,int)), of array<int,3>, of array<int,2>)',
      quick=[_pat(p, PFXS='k_dshape1_', PFXI='k_dindex1_') for p in ('nnn', 'inn', 'nin', 'iin', 'nni', 'ini', 'nii', 'iii', 'ni')] +
            [dict(_pat('iii', PFXS='k_dshape1_', PFXI='k_dindex1_'), PAT='a3'), dict(_pat('ii', PFXS='k_dshape1_', PFXI='k_dindex1_'), PAT='a2')],
      thorough=[_pat(p, 12, PFXS='k_dshape1_', PFXI='k_dindex1_') for p in ('nnn', 'inn', 'nin', 'iin', 'nni', 'ini', 'nii', 'iii', 'ni')]),
 dict(name='kinds1', src='harnesses/C05.c', func='h_packed1', kernels=['C05_slice'], unwind=4,
      bounds=S1 + ' (pattern (int,int,int); shape container static_vector<size_t,4> / std::vector; and through the tuple dispatchers apply_shape_slice / apply_slice)',
      quick=[dict(_pat('iii'), PAT=k) for k in ('iii_sv', 'iii_vec')] + [dict(_pat('iii', PFXS='k_apply_shape1_', PFXI='k_apply_index1_'))]),
 dict(name='same1', src='harnesses/C05.c', func='h_same1', kernels=['C05_slice'], unwind=4,
      bounds='differential, NO finding region excluded: two encodings of the same one-axis slice (packed tuple vs std::vector of tuples / array<int,3> / array<int,2>; std::array vs static_vector vs std::vector shape; '
             'direct vs apply_ dispatcher; two-part vs three-part with None step) give the same extent and source index for n in 1..MAXN, start/stop in [-(n+2),n+2], step in {-3..3}\\{0}, k: all symbolic',
      quick=[_same(*x) for x in _SAME], thorough=[_same(*x, maxn=12) for x in _SAME]),
]
def _big(p, step, **kw):
    c = _pat(p, STEP=step, **kw); del c['MAXN']
    # back end per query (measured): SAT (cadical) decides positive steps in 3-20 s; negative steps need an SMT back end
    c['_backend'] = os.environ.get('C05_BIGBACK') or ('cadical' if step > 0 else 'z3' if p in ('nni', 'iii') else 'cvc5int')
    return c
HARNESSES += [
 dict(name='big1', src='harnesses/C05.c', func='h_big1', kernels=['C05_slice'], unwind=4, timeout=300,
      bounds='one axis, extent n in 1..2^31-3, start/stop symbolic over [-(n+2), n+2], element position k symbolic; the step is the per-query constant STEP (None/int pattern = PAT); '
             'back end per query: cadical (positive steps), cvc5 --solve-bv-as-int or z3 (negative steps)',
      quick=[_big('iii', s) for s in (1, 2, 3, 7, -1, -3)] + [_big('nii', s) for s in (1, 3)] + [_big('ini', s) for s in (1, 3, -1, -2)] + [_big('nni', s) for s in (2, -3)] + [_big(p, 1) for p in ('iin', 'inn', 'nin')],
      thorough=[_big('iii', s) for s in (5, 16, 1000, 65537, -2, -7)] + [_big('ini', s) for s in (7, -3)]),
]
VPATS = ['nnn', 'inn', 'nin', 'iin', 'nni', 'ini', 'nii', 'iii', 'nn', 'ii']
VFAMS = {2: ['ss', 'is', 'si', 'es', 'se', 'ie', 'ei'], 3: ['ses', 'sis', 'ies', 'sei', 'sss']}
def _cells(d, e): return ['in_cells.0:%d' % ({2: 16, 3: 27}[d] + 2), 'k_fill_u32.0:%d' % (e**d + 2)]
HARNESSES += [
 dict(name='view1', src='harnesses/C05.c', func='h_view1', kernels=['C05_view'], unwind=4,
      bounds='view::apply_slice on a 1-d hybrid array (capacity 8) with symbolic data; ' + S1,
      quick=[_pat(p, 6, _unwindset=['in_cells.0:8', 'k_fill_u32.0:8']) for p in VPATS], thorough=[_pat(p, 8, _unwindset=['in_cells.0:10', 'k_fill_u32.0:10']) for p in VPATS]),
 dict(name='viewfam', src='harnesses/C05.c', func='h_viewfam', kernels=['C05_view'], unwind=6,
      bounds='view::slice(array, items...) on 2-d (capacity 16) / 3-d (capacity 27) hybrid arrays with symbolic data; family = per-query constant FAM; extents 1..MAXF, slice parts / integers / result index symbolic as in fam',
      quick=[_fam(d, f, {2: 3, 3: 2}[d], _unwindset=_cells(d, {2: 3, 3: 2}[d])) for d in (2, 3) for f in VFAMS[d]],
      thorough=[_fam(d, f, {2: 4, 3: 3}[d], _unwindset=_cells(d, {2: 4, 3: 3}[d])) for d in (2, 3) for f in VFAMS[d]]),
 dict(name='viewdyn', src='harnesses/C05.c', func='h_viewfam', kernels=['C05_view'], unwind=6,
      bounds='view::apply_slice(array, static_vector of either<int, either<array<int,3>, ellipsis>>) on 2-d / 3-d hybrid arrays with symbolic data; ONE instantiation per dim, item kinds = per-query constant FAM (run-time values of the kernel)',
      quick=[_fam(d, f, {2: 3, 3: 2}[d], CONSTK=1, _unwindset=_cells(d, {2: 3, 3: 2}[d])) for d in (2, 3) for f in VFAMS[d][:4]],
      thorough=[_fam(d, f, {2: 4, 3: 3}[d], CONSTK=1, _unwindset=_cells(d, {2: 4, 3: 3}[d])) for d in (2, 3) for f in all_fams(d) if set(f) != {'i'}]),
]
for _h in HARNESSES:
    for _t in ('quick', 'thorough'):
        for _c in _h.get(_t, []): _c['H_' + _h['func'][2:].upper()] = 1
OUTSIDE = []
ASSUMPTIONS = []
PENDING_FINDINGS = []
CLAIM = dict(text='TBD', note='TBD')
