KERNELS = {'C08_reduce': dict(src='kernels/C08_reduce.cpp', flags=['-DNDEBUG']),
           'C08_front': dict(src='kernels/C08_front.cpp', flags=['-DNDEBUG']),
           'C08_index': dict(src='kernels/C08_index.cpp', flags=['-DNDEBUG'])}
def _c(e, **kw):
    c = {'MAXE': e, '_unwind': e**3 + 2, '_unwindset': ['in_data.0:%d' % (e**3 + 2), 'k_fill_u32.0:%d' % (e**3 + 2)]}; c.update(kw); return c
def _shapes(e, **kw):
    """every 3-d shape with extents 1..e as per-query constants"""
    return [_c(e, SH0=a, SH1=b, SH2=c, **kw) for a in range(1, e + 1) for b in range(1, e + 1) for c in range(1, e + 1)]
B3 = ('hybrid 3-d array of unsigned (wrap-around defined); extents 1..MAXE, all element data, the (possibly negative) axis / axes, the result index '
      'and the initial value are symbolic unless a config fixes them (KEEP = run-time keepdims value, SH0..SH2 = shape: enumerated exhaustively); ')
def _r(name, bounds, quick=None, thorough=None, **kw):
    return dict(name=name, src='harnesses/C08.c', func='h_' + name, kernels=['C08_reduce'], bounds=B3 + bounds,
                quick=[_c(2)] if quick is None else quick, thorough=[_c(3, _timeout=3600)] if thorough is None else thorough, timeout=kw.pop('timeout', 900), **kw)
KEEPS = [_c(2, KEEP=0), _c(2, KEEP=1)]
KEEPS3 = [_c(3, KEEP=0, _timeout=3600), _c(3, KEEP=1, _timeout=3600)]
KFA = {'KF_C08_ACCUM_NEGATIVE_AXIS': 1}
HARNESSES = [
 # ---- quick tier: one harness per sub-claim
 _r('rsub_axis', 'view::reduce_subtract(a, axis): single axis in [-3,2], no initial, keepdims False'),
 _r('rsub_axis_keep_ct', 'reduce_subtract(a, axis, None, None, True): compile-time keepdims'),
 _r('rsub_axis_init_keep_rt', 'reduce_subtract(a, axis, None, initial, bool keepdims): initial present, keepdims a run-time bool (either<> result), one query per keepdims value',
    quick=KEEPS, thorough=KEEPS3),
 _r('radd_axes2', 'view::reduce_add(a, array<int,2> axes): two distinct axes in any order / sign'),
 _r('rsub_axes2', 'view::reduce(subtract, a, array<int,2> axes): fold in C order of the source coordinates over two axes; shape a per-query constant '
    '(symbolic shape: no verdict in 900 s); quick only shape (2,2,2), thorough every shape with extents 1..2',
    quick=[_c(2, SH0=2, SH1=2, SH2=2)], thorough=_shapes(2, _timeout=1800)),
 _r('rsub_none_init', 'view::reduce(subtract, a, None, None, initial): all axes, result a number; shape a per-query constant, all 8 / 27 shapes enumerated',
    quick=_shapes(2), thorough=_shapes(3)),
 _r('rsub_none_keep_rt', 'view::reduce(subtract, a, None, None, None, bool keepdims): number or (1,1,1) array decided at run time; keepdims symbolic; shape a per-query constant, all shapes enumerated',
    quick=_shapes(2), thorough=_shapes(3)),
 _r('asub_axis', 'view::accumulate_subtract(a, axis): running fold, source shape; negative axes are the pending finding', quick=[_c(2, **KFA)], thorough=[_c(3, _timeout=3600, **KFA)]),
 _r('rsub_axes3_init', 'view::reduce(subtract, a, array<int,3> axes (every permutation / sign), None, initial): explicitly named axes reduce the array to a NUMBER (reduce_t::operator num_type); shape a per-query constant',
    quick=_shapes(2), thorough=_shapes(2) + [_c(2, _timeout=1800)]),
 _r('rsub_axes3', 'same without initial', quick=[_c(2, SH0=2, SH1=1, SH2=2), _c(2, SH0=2, SH1=2, SH2=2)], thorough=_shapes(2, _timeout=1800)),
 _r('radd_axis_dtype', 'view::reduce_add(a uint8, axis, dtype=uint32): fold carried in the requested dtype (sums above 255 survive)'),
 _r('aadd_axis_dtype', 'view::accumulate_add(a uint8, axis, dtype=uint32): running fold carried in the requested dtype'),
 _r('aadd_axis_dtype8', 'view::accumulate_add(a uint32, axis, dtype=uint8): running fold in the narrower dtype'),
 _r('radd_axis_dtype8', 'view::reduce_add(a uint32, axis, dtype=uint8)', quick=[], thorough=[_c(2), _c(3, _timeout=3600)]),
 _r('radd_axis_dtype_init', 'view::reduce_add(a uint8, axis, dtype=uint32, initial)', quick=[], thorough=[_c(2), _c(3, _timeout=3600)]),
 _r('radd_none_dtype_init_keep', 'view::reduce_add(a uint8, None, dtype=uint32, initial, keepdims True): every optional argument at once on the axis=None specialisation; shape per-query constant', quick=_shapes(2)[-2:], thorough=_shapes(2)),
 _r('radd_none_dtype_init', 'same with keepdims False (a number)', quick=_shapes(2)[-1:], thorough=_shapes(2)),
 _r('radd_none_dtype_keep', 'same without initial, keepdims True', quick=_shapes(2)[-1:], thorough=_shapes(2)),
 _r('radd_axis_dtype_init_keep', 'view::reduce_add(a uint8, axis, dtype=uint32, initial, keepdims True)', quick=[], thorough=[_c(2), _c(3, _timeout=3600)]),
 _r('radd_none_dtype', 'view::reduce_add(a uint8, None, dtype=uint32): a number', quick=_shapes(2)[-1:], thorough=_shapes(2)),
 # ---- thorough tier only (symbolic shapes, measured 125..720 s each at extents <= 2 on the loaded machine)
 _r('rsub_axis_init', 'reduce_subtract(a, axis, None, initial)', quick=[], thorough=[_c(2), _c(3, _timeout=3600)]),
 _r('rsub_axis_keep_rt', 'reduce_subtract(a, axis, None, None, bool keepdims), one query per keepdims value', quick=[], thorough=KEEPS + KEEPS3),
 _r('radd_axis', 'view::reduce_add(a, axis)', quick=[], thorough=[_c(2), _c(3, _timeout=3600)]),
 _r('rsub_axes3_keep_ct', 'view::reduce(subtract, a, array<int,3> axes (every permutation / sign), keepdims True)', quick=[], thorough=[_c(2), _c(3, _timeout=3600)]),
 _r('rsub_axes2_init_keep_rt', 'view::reduce(subtract, a, array<int,2>, None, initial, bool keepdims); shape a per-query constant (symbolic shape: no verdict in 900 s)',
    quick=[], thorough=_shapes(2, KEEP=0, _timeout=1800) + _shapes(2, KEEP=1, _timeout=1800)),
 _r('rsub_none', 'view::reduce(subtract, a, None) with a symbolic shape', quick=[], thorough=[_c(2, _timeout=1800)]),
 _r('rsub_none_keep_ct', 'view::reduce(subtract, a, None, None, None, True) with a symbolic shape', quick=[], thorough=[_c(2, _timeout=1800)]),
]
# ---- index level
IB = 'bounded run-time-dim shape (static_vector<size_t,4>, dim 1..4) unless stated; every extent any 64-bit value, axis/axes positive or negative, result index below the result shape: all symbolic; '
def _i(name, bounds, **kw):
    return dict(name='ix_' + name, src='harnesses/C08_index.c', func='h_' + name, kernels=['C08_index'], unwind=6, quick=kw.pop('quick', [{}]), thorough=kw.pop('thorough', [{}]), bounds=IB + bounds, **kw)
HARNESSES += [
 _i('rd_axis_f', 'index::remove_dims(shape, axis, False)'), _i('rd_axis_t', 'index::remove_dims(shape, axis, True)'),
 _i('rd_arr4_axis_f', 'remove_dims on std::array<size_t,4>, False'), _i('rd_arr4_axis_t', 'remove_dims on std::array<size_t,4>, True'),
 _i('rd_axes2_f', 'remove_dims(shape, array<int,2>, False), dim 2..4'), _i('rd_axes2_t', 'remove_dims(shape, array<int,2>, True), dim 2..4'),
 _i('rd_none_t', 'remove_dims(shape, None, True)'),
 _i('rd_axis_rt', 'remove_dims(shape, axis, bool keepdims) called directly with a run-time bool (view::reduce never does); region of the pending finding (keepdims && dim == bound) excluded',
    quick=[{'KF_C08_REMOVE_DIMS_RT_KEEPDIMS': 1}], thorough=[{'KF_C08_REMOVE_DIMS_RT_KEEPDIMS': 1}], gate=False),
 _i('rs_axis_f', 'index::reduction_slices(indices, shape, axis, False)'), _i('rs_axis_t', 'reduction_slices(indices, shape, axis, True)'),
 _i('rs_axes2_f', 'reduction_slices(indices, shape, array<int,2>, False)'), _i('rs_axes2_t', 'reduction_slices(indices, shape, array<int,2>, True)'),
]
# ---- front ends
def _f(name, bounds, quick=None, thorough=None, **kw):
    return dict(name='fe_' + name, src='harnesses/C08_front.c', func='h_' + name, kernels=['C08_front'], bounds=B3 + bounds,
                quick=[_c(2)] if quick is None else quick, thorough=[_c(3, _timeout=3600)] if thorough is None else thorough, timeout=900, **kw)
HARNESSES += [
 _f('sum_axis', 'view::sum(a, axis)'), _f('amax_axis', 'view::amax(a, axis) == largest matching element'),
 _f('amax_axis_i32', 'view::amax(a, axis) on SIGNED int data (negative extremes)'), _f('amin_axis_i32', 'view::amin(a, axis) on signed data', quick=[], thorough=[_c(2), _c(3, _timeout=3600)]), _f('amax_none_i32', 'view::amax(a) on signed data', quick=[], thorough=[_c(2, _timeout=1800)]),
 _f('cumsum_axis', 'view::cumsum(a, axis); negative axes are the pending finding', quick=[_c(2, **KFA)], thorough=[_c(3, _timeout=3600, **KFA)]),
 _f('trace2', 'view::trace of a 2-d array (a number)'), _f('trace3', 'view::trace of a 3-d array over its first two axes'),
 _f('mean_axis', 'view::mean of a 2-d float array (extents 1..MAXE) over a symbolic axis; data integer-valued in [-8,8]; + and / uninterpreted (LL_UF_FLOAT): decided is which elements '
    'enter the sum, in which order, and that the sum is divided by the extent', quick=[dict(_c(2), LL_UF_FLOAT=1)], thorough=[dict(_c(3), LL_UF_FLOAT=1)], backend='kissat'),
 # thorough only
 _f('sum_none', 'view::sum(a, None)', quick=[], thorough=[_c(2, _timeout=1800)]),
 _f('sum_axis_init_keep', 'view::sum(a, axis, None, initial, bool keepdims)', quick=[], thorough=KEEPS),
 _f('amin_axis', 'view::amin(a, axis)', quick=[], thorough=[_c(2), _c(3, _timeout=3600)]), _f('amax_none', 'view::amax(a)', quick=[], thorough=[_c(2, _timeout=1800)]),
 _f('prod_axis', 'view::prod(a, axis); element data restricted to 8-bit values (32x32-bit multiplier equivalence gives no verdict); kissat (minisat: no verdict in 900 s)', quick=[], thorough=[_c(2, _timeout=1800)], backend='kissat'),
 _f('cumprod_axis', 'view::cumprod(a, axis), 8-bit data; negative axes are the pending finding', quick=[], thorough=[_c(2, _timeout=1800, **KFA)], backend='kissat'),
 # not reached: kept in the harness file, not scheduled (see OUTSIDE)
 _f('var_axis', 'NOT REACHED', quick=[], thorough=[]), _f('stddev_axis', 'NOT REACHED', quick=[], thorough=[]), _f('vector_norm_axis', 'NOT REACHED', quick=[], thorough=[]),
]
PENDING_FINDINGS = [
 dict(id='C08-accumulate-negative-axis', harness='asub_axis', exclude_define='KF_C08_ACCUM_NEGATIVE_AXIS',
      witness_inputs=['0x2', '0x2', '0x1', '0x1', '0x0', '0x1', '0x0', '0x0', '0x0', '0x0', '0x0', '0xfffffffffffffffd', '0x1', '0x0', '0x0'], witness_config={'MAXE': 2},
      what='view::accumulate (accumulate_subtract, cumsum, cumprod, ...) with a NEGATIVE axis returns the source array unchanged: accumulate_t::operator() compares the raw axis '
           'with the loop index (no normalisation), so no axis is accumulated. cumsum([[1,2,3],[4,5,6]], -1) == [[1,2,3],[4,5,6]] (NumPy [[1,3,6],[4,9,15]]); '
           'witness: shape (2,2,1), data 1,0,1,0, axis -3, index (1,0,0): returns 1, NumPy 0.'),
 dict(id='C08-accumulate-negative-axis', harness='fe_cumsum_axis', exclude_define='KF_C08_ACCUM_NEGATIVE_AXIS', witness_config={'MAXE': 2},
      witness_inputs=['0x2', '0x1', '0x1', '0x1', '0x1', '0x0', '0x0', '0x0', '0x0', '0x0', '0x0', '0xfffffffffffffffd', '0x1', '0x0', '0x0'],
      what='same defect through view::cumsum: shape (2,1,1), data 1,1, axis -3, index (1,0,0): returns 1, NumPy 2'),
 dict(id='C08-accumulate-negative-axis', harness='fe_cumprod_axis', exclude_define='KF_C08_ACCUM_NEGATIVE_AXIS', witness_config={'MAXE': 2},
      witness_inputs=['0x2', '0x1', '0x1', '0x2', '0x3', '0x0', '0x0', '0x0', '0x0', '0x0', '0x0', '0xfffffffffffffffd', '0x1', '0x0', '0x0'],
      what='same defect through view::cumprod: shape (2,1,1), data 2,3, axis -3, index (1,0,0): returns 3, NumPy 6'),
 dict(id='C08-remove-dims-runtime-keepdims', harness='ix_rd_axis_rt', exclude_define='KF_C08_REMOVE_DIMS_RT_KEEPDIMS',
      witness_inputs=['0x1', '0x1', '0x1', '0x1', '0x4', '0x0', '0x1'],
      what='index::remove_dims(shape, axis, keepdims) with keepdims a run-time bool: the result type is sized for keepdims == false (static_vector<.,bound-1> / array<.,dim-1>); '
           'keepdims == true on a shape that uses the whole bound (static_vector<size_t,4> of dim 4) makes resize refuse (capacity hook) and the fill loop write past the buffer '
           '(native: stack corruption). view::reduce is not affected (it dispatches a run-time bool to True/False).'),
]
OUTSIDE = [
 'var, stddev, vector_norm (compositions of 5-7 views): solver out of memory (6 GB) after 405 s / 428 s / 73 s at extents <= 2 even with uninterpreted float arithmetic - not reached',
 'mean with exact IEEE arithmetic (only the uninterpreted-arithmetic form returns a verdict); result dtypes other than the two integer conversions covered (uint8->uint32 widening, uint32->uint8 narrowing): float result dtypes',
 'view::reduce(subtract, a, 2 axes) and its initial/keepdims form with a SYMBOLIC shape (no verdict in 900 s; decided per constant shape: 293 s / 664 s at (2,2,2)); '
 'symbolic-shape queries at extents 1..3 are thorough-tier only (reduce_subtract single axis: no verdict in 1200 s / 4.1 GB on the loaded machine, 764 s measured idle in DESIGN.md); extents > 3, source dims other than 3 (2 for trace/mean)',
 'compile-time (constant) axes and shapes, other container kinds (see C09); maximum/minimum/bitwise/logical reductions other than amax/amin (same reduce_t code, different functor: C07 leaf checks)',
 'duplicate axes and out-of-range axes (invalid arguments: C15); signed element types for sums/products (summing arbitrary ints overflows: a property of the data; amax/amin ARE run on signed data)',
 'products of full 32-bit data (prod / cumprod use 8-bit data)',
]
ASSUMPTIONS = ['fe_mean_axis: IEEE + and / are uninterpreted functions shared by the kernel and the reference (engine/ll2c.py LL_UF_FLOAT)']
CLAIM = dict(
 text='For a hybrid 3-d unsigned array with symbolic extents (1..2 quick, 1..3 thorough), data, axis/axes (positive or negative, any order), result index and initial value the solver shows: '
      'view::reduce over one axis, two axes, three axes and None, with keepdims false/true as a type or a run-time bool and initial absent/present, has NumPy\'s result shape and its element is the left fold '
      '(non-commutative subtract) of exactly the source elements with matching non-reduced coordinates in increasing index order; accumulate_subtract is the running fold (every axis in [-3,2]); explicitly named axes that reduce the array to a NUMBER with and without initial; a result dtype (uint8 elements folded in uint32, uint32 elements folded in uint8) for reduce and accumulate, also combined with axis=None, initial and keepdims; '
      'index::remove_dims / reduction_slices equal their definitions for every shape of dim 1..4 with arbitrary 64-bit extents; sum, prod, amax, amin, cumsum, cumprod, trace and mean agree with these definitions. '
      'Two defects found: negative axis in accumulate (repaired in /repo) and remove_dims with a run-time keepdims (open, excluded, reported as KNOWN-FINDING).',
 note='Bounded as listed per harness; some forms are decided per constant shape (all shapes enumerated). Trusted: clang-14 -O1 lowering, engine/ll2c.py, CBMC, kissat; validated per run by the differential gate and witness assertions.')
