KERNELS = {'C08_reduce': dict(src='kernels/C08_reduce.cpp', flags=['-DNDEBUG'])}
def _c(e, **kw):
    c = {'MAXE': e, '_unwind': e**3 + 2, '_unwindset': ['in_data.0:%d' % (e**3 + 2), 'k_fill_u32.0:%d' % (e**3 + 2)]}; c.update(kw); return c
def _r(name, **kw):
    return dict(name=name, src='harnesses/C08.c', func='h_' + name, kernels=['C08_reduce'], quick=[_c(2)], thorough=[_c(3)], bounds='', **kw)
HARNESSES = [_r(n) for n in ('rsub_axis', 'rsub_axis_init', 'rsub_axis_keep_ct', 'rsub_axis_keep_rt', 'rsub_axis_init_keep_rt', 'radd_axis',
                             'rsub_axes2', 'rsub_axes2_init_keep_rt', 'rsub_axes3_keep_ct', 'radd_axes2',
                             'rsub_none', 'rsub_none_init', 'rsub_none_keep_ct', 'rsub_none_keep_rt', 'asub_axis')]
OUTSIDE = []
ASSUMPTIONS = []
CLAIM = dict(text='', note='')
