# C18: utils::isequal / utils::isclose are exact comparison oracles. One kernel source, two builds.
import os
KERNELS = {'C18_compare':     dict(src='kernels/C18_compare.cpp', flags=['-DNDEBUG']),
           'C18_compare_dbg': dict(src='kernels/C18_compare.cpp', flags=['-DKSUFFIX=_dbg'])}   # asserts on
# NMV_NO_PENDING=1 runs every harness on its full domain (the pending findings below then show up as VIOLATIONs)
_PENDING_ON = not os.environ.get('NMV_NO_PENDING')

_US = ['in_pair32.0:11', 'in_pairf.0:11', 'eq_data.0:11', 'close_data.0:11', 'k_fill_u32.0:11', 'k_fill_f32.0:11',
       'k_fill_u32_dbg.0:11', 'k_fill_f32_dbg.0:11', 'll_memcpy_loop.0:40', 'll_memmove_loop.0:40', 'll_memmove_loop.1:40', 'll_memset_loop.0:40']
HARNESSES = []
def _h(name, bounds, unwind=6, quick=None, thorough=None, dbg_kf=True, dbg=True, kf=None, dbg_quick=True, dbg_filter=None, **kw):
    """dbg_quick=False: the asserts-on twin runs in the thorough tier only (no assert is involved in that code path; budget).
    dbg_filter: keeps, for the asserts-on twin, only the configurations that are not wholly inside the pending finding's region (mismatching dims abort)."""
    quick = [{}] if quick is None else quick; thorough = thorough or quick
    base = {'_unwindset': _US}
    if kf and _PENDING_ON: base[kf] = 1            # TEMPORARY: pending finding (see PENDING_FINDINGS)
    def cfgs(cs, extra): return [dict(c, **extra) for c in cs]
    HARNESSES.append(dict(name=name, src='harnesses/C18.c', func='h_' + name, kernels=['C18_compare'], unwind=unwind, bounds='NDEBUG build; ' + bounds,
                          quick=cfgs(quick, base), thorough=cfgs(thorough, base), **kw))
    if dbg:
        extra = dict(base, DBG=1)
        if dbg_kf and _PENDING_ON: extra['KF_C18_DBG_MISMATCH_ABORTS'] = 1      # TEMPORARY: pending finding C18-dbg-mismatch-aborts
        HARNESSES.append(dict(name=name + '_dbg', src='harnesses/C18.c', func='h_' + name, kernels=['C18_compare_dbg'], unwind=unwind,
                              bounds='asserts-on build; ' + bounds + ('; operands of different length/dim/shape excluded (pending finding: assert() aborts)' if dbg_kf else ''),
                              quick=cfgs([c for c in quick if not (dbg_filter and dbg_kf and _PENDING_ON) or dbg_filter(c)] if dbg_quick else [], extra),
                              thorough=cfgs([c for c in thorough if not (dbg_filter and dbg_kf and _PENDING_ON) or dbg_filter(c)], extra), thorough_includes_quick=dbg_quick, **kw))

IDX = 'lengths 0..4 symbolic on both sides, all element values (64-bit) symbolic, cells beyond the logical length of bounded vectors symbolic (stale); both call orders'
NS = [{'N': n} for n in (1, 2, 3, 4)]
_h('idx_sv_sv', 'static_vector<size_t,4> pairs; ' + IDX)
_h('idx_vec_vec', 'std::vector<size_t> pairs; ' + IDX)
_h('idx_vec_sv', 'std::vector / static_vector; ' + IDX)
_h('idx_arr_sv', 'std::array<size_t,N> (N per-query constant 1..4) / static_vector; ' + IDX, quick=NS)
_h('idx_arr_vec', 'std::array<size_t,N> (N per-query constant 1..4) / std::vector; ' + IDX, quick=NS)
_h('idx_arr_arr', 'std::array<size_t,N> pairs of the same N (different N does not compile); values symbolic', quick=NS, dbg_kf=False)
_h('idx_svi_sv', 'static_vector<int,4> / static_vector<size_t,4>; ' + IDX, kf='KF_C18_EQ_MIXED_SIGN_TRUNCATES')
_h('num', 'size_t/size_t and int/unsigned scalars, all values', dbg_kf=False)
FL = 'every bit pattern (NaN, infinities, denormals, signed zeros included) for both operands and eps'
FA = ('quick tier: element values and eps from the alphabet {0, 1, 1.5, -1, 1.0000001, 2.5, 1e30, NaN} (the element-level comparison is decided over all bit patterns in close_f32/close_f64); '
      'thorough tier: every bit pattern')
_h('close_f32', 'float/float scalars; ' + FL, dbg_kf=False, backend='cadical', dbg_quick=False)
_h('close_lemma', 'facts about the reference itself, no nmtools code: larger-minus-smaller equals fabs(a-b) and is symmetric (IEEE-754), float (quick) and double (thorough); for 32-bit integer operands converted to double it equals the exact integer |a-b| < eps (LEMMA 1 unsigned; LEMMA 2 int, split by the sign pattern SGN of the operands as per-query constant: the mixed-sign case in the quick tier, all four in the thorough tier); ' + FL, dbg=False, backend='cadical', quick=[{'LEMMA': 32}, {'LEMMA': 1, '_timeout': 900}, {'LEMMA': 2, 'SGN': 2, '_timeout': 900}], thorough=[{'LEMMA': 32}, {'LEMMA': 1, '_timeout': 900}] + [{'LEMMA': 2, 'SGN': g, '_timeout': 1800} for g in (0, 1, 2, 3)] + [{'LEMMA': 64, '_timeout': 3600}], gate=False)
_h('close_f64', 'double/double scalars; ' + FL, dbg_kf=False, backend='cadical', kf='KF_C18_CLOSE_DOUBLE_ROUNDS_TO_FLOAT', dbg_quick=False, timeout=900)
_h('close_f32_f64', 'float/double scalars; ' + FL, dbg_kf=False, backend='cadical', kf='KF_C18_CLOSE_DOUBLE_ROUNDS_TO_FLOAT', dbg_quick=False, timeout=900)
_h('close_uint', 'unsigned/unsigned scalars, double eps: all values', dbg_kf=False, backend='cadical', kf='KF_C18_CLOSE_UNSIGNED_WRAPS')
_h('close_int', 'int/int scalars, double eps: all values', dbg_kf=False, backend='cadical', kf='KF_C18_CLOSE_INT_OVERFLOW')
ND = 'extents 0..MAXE symbolic on both sides (same shape, same size with another shape, other sizes), all element data symbolic; both call orders'
DIMS = [{'NA': a, 'NB': b} for a in (1, 2, 3) for b in (1, 2, 3) if a <= b]
SAMED = lambda c: c.get('NA') == c.get('NB', 2)
_h('nd_h2_h2', 'hybrid 2-d (capacity 9) pairs; ' + ND, unwind=12, dbg_kf=False)
_h('nd_dimdiff', 'hybrid 2-d vs 1-d and 2-d vs 3-d; ' + ND, unwind=12, dbg=not _PENDING_ON, dbg_kf=False)   # asserts-on twin: the whole domain is inside the pending finding (dimension mismatch aborts)
_h('nd_f23_h2', 'fixed_ndarray<unsigned,2,3> vs hybrid 2-d; ' + ND, unwind=12, dbg_kf=False)
BIG = dict(_timeout=1800, _mem_gb=12)
_h('nd_b_b', 'ndarray_t<static_vector<unsigned,9>, static_vector<size_t,3>> pairs, dims (NA,NB) per-query constants 1..3 (every unordered pair in the thorough tier), product <= CAPB; ' + ND, unwind=7,
   quick=[dict(d, CAPB=4, MAXE=4) for d in DIMS if (d['NA'], d['NB']) in ((1, 2), (2, 2), (2, 3))], thorough=[dict(d, CAPB=4, MAXE=4) for d in DIMS] + [dict(d, CAPB=6, MAXE=3, _unwind=9, **BIG) for d in DIMS], dbg_filter=SAMED, mem_gb=8)
_h('nd_d_d', 'ndarray_t<std::vector<unsigned>, std::vector<size_t>> pairs, dims (NA,NB) per-query constants 1..3, product <= CAPB; ' + ND, unwind=7,
   quick=[], thorough=[dict(d, CAPB=4, MAXE=2, _timeout=1800, _mem_gb=14) for d in DIMS], dbg_filter=SAMED, optional=True)
_h('nd_d_h2', 'dynamic (dim NA per-query constant 1..3) vs hybrid 2-d; ' + ND, unwind=7, quick=[], thorough=[dict(NA=a, CAPB=4, MAXE=2, _timeout=1800, _mem_gb=14) for a in (1, 2, 3)], dbg_filter=SAMED, optional=True)
_h('close_h2_h2', 'isclose on hybrid float 2-d pairs; ' + FA + '; ' + ND, unwind=7, quick=[{'MAXE': 2, 'FALPHA': 1}], thorough=[dict(MAXE=2, **BIG)], backend='cadical')
_h('close_b_b', 'isclose on bounded-dim float arrays, dims (NA,NB) per-query constants; ' + FA + '; ' + ND, unwind=7,
   quick=[dict(NA=1, NB=1, CAPB=4, MAXE=2, FALPHA=1)], thorough=[dict(d, CAPB=4, MAXE=2, FALPHA=1, **BIG) for d in DIMS], backend='cadical', dbg_filter=SAMED, optional=True)
_h('maybe', 'optional<static_vector> and utl::maybe<static_vector> pairs: has_value flags, lengths 0..4, values symbolic')
_h('maybe_value', 'optional<static_vector> against a plain value and against Nothing; None/None')
_h('close_maybe', 'isclose optional<float> pairs / against a value; ' + FA, dbg_kf=False, backend='cadical', quick=[{'FALPHA': 1}], thorough=[{}], dbg_quick=False)
_h('either', 'variant<size_t, static_vector> pairs: active alternative, lengths, values symbolic')
_h('either_value', 'variant<size_t, static_vector> against a scalar / an index array')
_h('close_either', 'isclose variant<float, hybrid 1-d float> pairs (same shape), extents 0..MAXE; ' + FA, unwind=7, dbg_kf=False, backend='cadical', quick=[{'FALPHA': 1}], thorough=[{}], dbg_quick=False)
_h('close_either_value', 'isclose variant<float, hybrid 1-d float> against a float scalar; ' + FA, unwind=7, dbg_kf=False, kf='KF_C18_CLOSE_EITHER_DROPS_EPS', backend='cadical', quick=[{'FALPHA': 1}], thorough=[{}], dbg_quick=False)
_h('tuple', 'tuple<size_t x3> pairs, tuple/array', dbg_kf=False)
_h('close_tuple', 'isclose tuple<float,float> pairs; ' + FA, dbg_kf=False, backend='cadical', quick=[{'FALPHA': 1}], thorough=[{}], dbg_quick=False)
_h('tuple_mixed', 'tuple<size_t, static_vector, optional<static_vector>> pairs, all members symbolic')

# BEGIN PENDING_FINDINGS (generated from the replay files by the builder; one entry per harness that uses an exclusion macro)
PENDING_FINDINGS = [
 dict(id='F-C18-dbg-mismatch-aborts', harness='close_b_b_dbg', exclude_define='KF_C18_DBG_MISMATCH_ABORTS', witness_config={'NA': 1, 'NB': 1, 'CAPB': 4, 'MAXE': 2, 'FALPHA': 1, 'DBG': 1},
      witness_inputs=['0x0', '0x2', '0x2', '0x2', '0x2', '0x2', '0x7', '0x7', '0x1', '0x7', '0x7', '0x1', '0x7', '0x7', '0x1', '0x7', '0x7', '0x1', '0x7', '0x7', '0x1', '0x7', '0x7', '0x1', '0x7', '0x7', '0x1', '0x7', '0x7', '0x1', '0x7', '0x7', '0x1', '0x7'],
      what='asserts-on build: isequal/isclose of operands with different length / dimension / shape stops in assert() (abort) instead of returning false'),
 dict(id='F-C18-close-either-drops-eps', harness='close_either_value', exclude_define='KF_C18_CLOSE_EITHER_DROPS_EPS', witness_config={'FALPHA': 1},
      witness_inputs=['0x0', '0x3', '0x6', '0x6', '0x5', '0x0', '0x1', '0x7', '0x0'],
      what='isclose(either, value, eps) and isclose(value, either, eps) ignore eps: the one-sided either branches call isclose without it (default 1e-6)'),
 dict(id='F-C18-close-double-rounds-to-float', harness='close_f32_f64', exclude_define='KF_C18_CLOSE_DOUBLE_ROUNDS_TO_FLOAT', witness_config={},
      witness_inputs=['0xffffffff00000000', '0xbbf7ffffeffff7ff', '0x3bf7ffffeffff7ff', '0x0'],
      what='isclose on double operands rounds |a-b| to float (constexpr_fabs<Float=float>) before comparing with eps'),
 dict(id='F-C18-close-double-rounds-to-float', harness='close_f64', exclude_define='KF_C18_CLOSE_DOUBLE_ROUNDS_TO_FLOAT', witness_config={},
      witness_inputs=['0x81132c3a000000e9', '0x81132c39fffff708', '0x8e10000', '0x0'],
      what='isclose on double operands rounds |a-b| to float (constexpr_fabs<Float=float>) before comparing with eps'),
 dict(id='F-C18-dbg-mismatch-aborts', harness='close_h2_h2_dbg', exclude_define='KF_C18_DBG_MISMATCH_ABORTS', witness_config={'MAXE': 2, 'FALPHA': 1, 'DBG': 1},
      witness_inputs=['0x1', '0x2', '0x2', '0x1', '0x7', '0x7', '0x1', '0x7', '0x7', '0x1', '0x7', '0x7', '0x1', '0x7', '0x7', '0x1', '0x7', '0x7', '0x1', '0x7', '0x7', '0x1', '0x7', '0x7', '0x1', '0x7', '0x7', '0x1', '0x7', '0x7', '0x1', '0x7'],
      what='asserts-on build: isequal/isclose of operands with different length / dimension / shape stops in assert() (abort) instead of returning false'),
 dict(id='F-C18-close-int-overflow', harness='close_int', exclude_define='KF_C18_CLOSE_INT_OVERFLOW', witness_config={},
      witness_inputs=['0x8f2bc401', '0xb250c000', '0x0', '0x41c1927e00000000'],
      what='isclose on int operands: the difference is converted to float (rounded beyond 2^24) and overflows int for far-apart values'),
 dict(id='F-C18-close-int-overflow', harness='close_int_dbg', exclude_define='KF_C18_CLOSE_INT_OVERFLOW', witness_config={'DBG': 1},
      witness_inputs=['0x8f2bc401', '0xb250c000', '0x0', '0x41c1927e00000000'],
      what='isclose on int operands: the difference is converted to float (rounded beyond 2^24) and overflows int for far-apart values'),
 dict(id='F-C18-close-unsigned-wraps', harness='close_uint', exclude_define='KF_C18_CLOSE_UNSIGNED_WRAPS', witness_config={},
      witness_inputs=['0xdff7f012', '0xfff7f013', '0x0', '0x41e0000000000000'],
      what='isclose on unsigned operands: t-u wraps when t<u (asymmetric, close pairs reported not close); difference rounded to float beyond 2^24'),
 dict(id='F-C18-close-unsigned-wraps', harness='close_uint_dbg', exclude_define='KF_C18_CLOSE_UNSIGNED_WRAPS', witness_config={'DBG': 1},
      witness_inputs=['0xdff7f012', '0xfff7f013', '0x0', '0x41e0000000000000'],
      what='isclose on unsigned operands: t-u wraps when t<u (asymmetric, close pairs reported not close); difference rounded to float beyond 2^24'),
 dict(id='F-C18-dbg-mismatch-aborts', harness='either_dbg', exclude_define='KF_C18_DBG_MISMATCH_ABORTS', witness_config={'DBG': 1},
      witness_inputs=['0x2', '0x3', '0x1', '0x1', '0x1', '0x0', '0x0', '0x0', '0x0', '0x0', '0x0', '0x1', '0x0', '0x0', '0x1', '0x0', '0x0', '0x0', '0x1'],
      what='asserts-on build: isequal/isclose of operands with different length / dimension / shape stops in assert() (abort) instead of returning false'),
 dict(id='F-C18-dbg-mismatch-aborts', harness='either_value_dbg', exclude_define='KF_C18_DBG_MISMATCH_ABORTS', witness_config={'DBG': 1},
      witness_inputs=['0x2', '0x4', '0x1', '0x0', '0x0', '0x1', '0x0', '0x0', '0x0', '0x0', '0x0', '0x1', '0x0', '0x0', '0x1', '0x0', '0x0', '0x0'],
      what='asserts-on build: isequal/isclose of operands with different length / dimension / shape stops in assert() (abort) instead of returning false'),
 dict(id='F-C18-dbg-mismatch-aborts', harness='idx_arr_sv_dbg', exclude_define='KF_C18_DBG_MISMATCH_ABORTS', witness_config={'N': 1, 'DBG': 1},
      witness_inputs=['0x0', '0x0', '0x0', '0x0', '0x0', '0x0', '0x0', '0x0', '0x0', '0x1', '0x0', '0x0', '0x0'],
      what='asserts-on build: isequal/isclose of operands with different length / dimension / shape stops in assert() (abort) instead of returning false'),
 dict(id='F-C18-dbg-mismatch-aborts', harness='idx_arr_vec_dbg', exclude_define='KF_C18_DBG_MISMATCH_ABORTS', witness_config={'N': 1, 'DBG': 1},
      witness_inputs=['0x3', '0x100000000', '0x100000000', '0x0', '0x2000', '0x0', '0x1', '0x0', '0x0', '0x1', '0x0', '0x0', '0x1'],
      what='asserts-on build: isequal/isclose of operands with different length / dimension / shape stops in assert() (abort) instead of returning false'),
 dict(id='F-C18-dbg-mismatch-aborts', harness='idx_sv_sv_dbg', exclude_define='KF_C18_DBG_MISMATCH_ABORTS', witness_config={'DBG': 1},
      witness_inputs=['0x0', '0x4', '0x0', '0x1', '0x0', '0x0', '0x1', '0x0', '0x0', '0x1', '0x0', '0x1', '0x0', '0x0'],
      what='asserts-on build: isequal/isclose of operands with different length / dimension / shape stops in assert() (abort) instead of returning false'),
 dict(id='F-C18-eq-mixed-sign-truncates', harness='idx_svi_sv', exclude_define='KF_C18_EQ_MIXED_SIGN_TRUNCATES', witness_config={},
      witness_inputs=['0x4', '0x4', '0x0', '0x0', '0x0', '0x80000000', '0xffffffff80000000', '0x0', '0x0', '0x0', '0x0', '0x0', '0x0', '0x0'],
      what='isequal(int index array, size_t index array) casts the size_t side to int (promote_index_t picks the signed type): values >= 2^31 compare equal to their truncation'),
 dict(id='F-C18-dbg-mismatch-aborts', harness='idx_svi_sv_dbg', exclude_define='KF_C18_DBG_MISMATCH_ABORTS', witness_config={'DBG': 1},
      witness_inputs=['0x0', '0x4', '0x1', '0x0', '0x0', '0x8', '0x0', '0x0', '0x0', '0x1', '0x0', '0x1', '0x0', '0x0'],
      what='asserts-on build: isequal/isclose of operands with different length / dimension / shape stops in assert() (abort) instead of returning false'),
 dict(id='F-C18-eq-mixed-sign-truncates', harness='idx_svi_sv_dbg', exclude_define='KF_C18_EQ_MIXED_SIGN_TRUNCATES', witness_config={'DBG': 1},
      witness_inputs=['0x4', '0x4', '0x0', '0x0', '0x0', '0x80000000', '0xffffffff80000000', '0x0', '0x0', '0x0', '0x0', '0x0', '0x0', '0x0'],
      what='isequal(int index array, size_t index array) casts the size_t side to int (promote_index_t picks the signed type): values >= 2^31 compare equal to their truncation'),
 dict(id='F-C18-dbg-mismatch-aborts', harness='idx_vec_sv_dbg', exclude_define='KF_C18_DBG_MISMATCH_ABORTS', witness_config={'DBG': 1},
      witness_inputs=['0x4', '0x0', '0x0', '0x0', '0x0', '0x0', '0x0', '0x0', '0x0', '0x0', '0x0', '0x0', '0x0', '0x0'],
      what='asserts-on build: isequal/isclose of operands with different length / dimension / shape stops in assert() (abort) instead of returning false'),
 dict(id='F-C18-dbg-mismatch-aborts', harness='idx_vec_vec_dbg', exclude_define='KF_C18_DBG_MISMATCH_ABORTS', witness_config={'DBG': 1},
      witness_inputs=['0x2', '0x3', '0x0', '0x1', '0x0', '0x0', '0x1', '0x0', '0x1', '0x0', '0x0', '0x0', '0x1', '0x0'],
      what='asserts-on build: isequal/isclose of operands with different length / dimension / shape stops in assert() (abort) instead of returning false'),
 dict(id='F-C18-dbg-mismatch-aborts', harness='maybe_dbg', exclude_define='KF_C18_DBG_MISMATCH_ABORTS', witness_config={'DBG': 1},
      witness_inputs=['0x0', '0x4', '0x1', '0x1', '0x1', '0x0', '0x0', '0x1', '0x0', '0x0', '0x1', '0x0', '0x0', '0x1', '0x0', '0x0'],
      what='asserts-on build: isequal/isclose of operands with different length / dimension / shape stops in assert() (abort) instead of returning false'),
 dict(id='F-C18-dbg-mismatch-aborts', harness='maybe_value_dbg', exclude_define='KF_C18_DBG_MISMATCH_ABORTS', witness_config={'DBG': 1},
      witness_inputs=['0x0', '0x4', '0x1', '0x0', '0x1', '0x0', '0x0', '0x40000000000000', '0x0', '0x1', '0x0', '0x0', '0x0', '0x1', '0x0'],
      what='asserts-on build: isequal/isclose of operands with different length / dimension / shape stops in assert() (abort) instead of returning false'),
 dict(id='F-C18-dbg-mismatch-aborts', harness='tuple_mixed_dbg', exclude_define='KF_C18_DBG_MISMATCH_ABORTS', witness_config={'DBG': 1},
      witness_inputs=['0x2', '0x0', '0x4', '0x4', '0x1', '0x1', '0x9f80000000000020', '0x9f80000000000000', '0x0', '0x0', '0x1000000000000000', '0x0', '0x8000000000000000', '0x0', '0x0', '0x1', '0x0', '0x0', '0x800', '0x0', '0x0', '0x1', '0x0', '0x0', '0x1', '0x0', '0x0', '0x1', '0x0', '0x0', '0x7fffffffffffffff', '0x7fffffffffffffff', '0x0'],
      what='asserts-on build: isequal/isclose of operands with different length / dimension / shape stops in assert() (abort) instead of returning false'),
 dict(id='F-C18-close-either-drops-eps', harness='close_either_value_dbg', exclude_define='KF_C18_CLOSE_EITHER_DROPS_EPS', witness_config={'FALPHA': 1, 'DBG': 1},
      witness_inputs=['0x0', '0x3', '0x6', '0x6', '0x5', '0x0', '0x1', '0x7', '0x0'],
      what='isclose(either, value, eps) and isclose(value, either, eps) ignore eps: the one-sided either branches call isclose without it (default 1e-6)'),
 dict(id='F-C18-close-double-rounds-to-float', harness='close_f32_f64_dbg', exclude_define='KF_C18_CLOSE_DOUBLE_ROUNDS_TO_FLOAT', witness_config={'DBG': 1},
      witness_inputs=['0xffffffff00000000', '0xbbf7ffffeffff7ff', '0x3bf7ffffeffff7ff', '0x0'],
      what='isclose on double operands rounds |a-b| to float (constexpr_fabs<Float=float>) before comparing with eps'),
 dict(id='F-C18-close-double-rounds-to-float', harness='close_f64_dbg', exclude_define='KF_C18_CLOSE_DOUBLE_ROUNDS_TO_FLOAT', witness_config={'DBG': 1},
      witness_inputs=['0x81132c3a000000e9', '0x81132c39fffff708', '0x8e10000', '0x0'],
      what='isclose on double operands rounds |a-b| to float (constexpr_fabs<Float=float>) before comparing with eps'),
]
# END PENDING_FINDINGS
OUTSIDE = [
 'ndarray pairs backed by std::vector (ndarray_t<std::vector,std::vector>): quick tier limited to <= 4 cells with the dims as per-query constants; larger ones run out of memory (5.5 GB) - see the thorough tier',
 'views as operands (isequal(view, array)): not built into a harness',
 'isclose wrappers (arrays, maybe, either, tuple) over ALL float bit patterns only in the thorough tier; the quick tier draws element values and eps from an 8-value alphabet '
 '(each FP comparison that must be proven equivalent costs 10-40 s of SAT time); the scalar isclose is decided over all bit patterns in both tiers',
 'isequal/isclose of two fixed-dim std::array-shaped arrays of different dim for isclose (does not compile: static_assert) ; index arrays of different compile-time length (does not compile)',
 'extents > 3 (4 for bounded-dim kinds), dims > 3, lengths > 4; bool / vector<bool> operands; slice / ellipsis / attribute operands; apply_isequal / apply_isclose (thin wrappers)',
 'NMTOOLS_ISCLOSE_NAN_HANDLING / INF_HANDLING builds (default 0)',
]
ASSUMPTIONS = ['IEEE-754 binary32/64 as implemented by CBMC\'s float encoding; the symmetry of the reference |a-b| < eps is itself decided by the solver (close_lemma)',
               'cells beyond the logical length of bounded vectors are symbolic inputs: a comparison that reads them is visible as a wrong result; utl containers additionally report every index >= size() through the NMTOOLS_VERIF hook']
CLAIM = dict(
 text='For index arrays (static_vector / std::array / std::vector in every pairing, lengths 0..4, all 64-bit values, stale capacity cells symbolic), scalars, hybrid / fixed / bounded-dim / dynamic ndarrays '
      '(same shape, same size with another shape, other sizes, other dims), optional (std and utl), variant and tuple operands the solver shows for BOTH call orders: isequal(a,b) == (same dim and shape and all elements equal), '
      'isclose(a,b,eps) == (same shape and |a-b| < eps for all elements, NaN never close; |a-b| taken as larger minus smaller in the common type of operands and eps - pure IEEE lemma queries show that this is fabs(a-b), is symmetric, and for 32-bit integer operands equals the exact integer difference), Nothing==Nothing, Nothing!=value, either/tuple member-wise; no element outside an operand\'s logical extent influences the result or is read '
      'through a hooked accessor. In the NDEBUG build operands of different length/shape/dim return false (the repair holds). The asserts-on build is shown to agree wherever lengths/shapes match.',
 note='Pending findings (excluded regions): asserts-on build aborts on mismatching operands; isequal(int array, size_t array) truncates to int; isclose on unsigned/int/double operands (wrap, float rounding); '
      'isclose(either, value, eps) ignores eps. Bounds as stated per harness. Trusted: clang-14 -O1 lowering, engine/ll2c.py, CBMC float/bit-vector encoding (cadical for FP queries).')
