KERNELS = {'C14_functor': dict(src='kernels/C14_functor.cpp', flags=['-DNDEBUG']), 'C14_graph': dict(src='kernels/C14_graph.cpp', flags=['-DNDEBUG'])}
def _c(e, **kw):
    c = {'MAXE': e, '_unwindset': ['in_data.0:%d' % (e*e + 2), 'k_fill_u32.0:%d' % (e*e + 2), 'agree.0:10', 'agree.1:10']}; c.update(kw); return c
B2 = 'hybrid 2-d operand(s) (buffer capacity 16), extents 1..MAXE, all element data, every attribute and the result index symbolic; the functor expression (a type) is enumerated'
def _h(name, unwind=8, quick=None, thorough=None, **kw):
    return dict(name=name, src='harnesses/C14.c', func=kw.pop('func', 'h_' + name), kernels=['C14_functor'], unwind=unwind,
                quick=quick or [_c(3)], thorough=thorough or [_c(4)], bounds=B2, **kw)
HARNESSES = [_h(n) for n in ('fn_transpose', 'fn_reshape', 'fn_flip', 'fn_slice', 'fn_invert', 'comp2', 'comp3', 'comp4', 'comp_sum', 'compb_inner', 'compb_inner_curry', 'compb_outer', 'compb_extract', 'extract_repeated')] + [
  _h('fn_sum', quick=[_c(3, VAR=v) for v in (1, 3)], thorough=[_c(3, VAR=v) for v in (2, 4)] + [_c(4, VAR=v) for v in (1, 2, 3, 4)])] + [   # fn_sum: 112-165 s per variant
  _h('fn_add', quick=[_c(3, VAR=v) for v in (2, 3)], thorough=[_c(3, VAR=v) for v in (1, 4, 5)] + [_c(4, VAR=v) for v in (1, 2, 3, 4, 5)]),
  _h('fn_subtract', quick=[_c(3, VAR=v) for v in (1, 2, 3, 4, 5)], thorough=[_c(4, VAR=v) for v in (1, 2, 3, 4, 5)])]
GPROGS = ['chain', 'diamond', 'shared', 'shared2', 'two', 'two_diamond']
LT = dict(_c(3), LL_LIFETIME=1)   # dead stack objects become arbitrary (engine/ll2c.py LL_LIFETIME): a read through a dangling reference is visible to the solver
HARNESSES += [_h('compb_extract_lt', quick=[LT], thorough=[dict(_c(4), LL_LIFETIME=1)], func='h_compb_extract'),
              _h('compb_extract_apply', quick=[LT], thorough=[dict(_c(4), LL_LIFETIME=1)]), _h('compb_extract_apply_flip', quick=[LT], thorough=[dict(_c(4), LL_LIFETIME=1)]),
              _h('compb_extract_second', quick=[dict(_c(3), KF_C14_NESTED_SECOND_OPERAND=1)], thorough=[dict(_c(4), KF_C14_NESTED_SECOND_OPERAND=1)])]
HARNESSES += [dict(name='graph', src='harnesses/C14_graph.c', func='h_graph', kernels=['C14_graph'], unwind=10, gate=False,
                   bounds='STRUCTURAL (no symbolic variable: the compute graph is a function of types): for the enumerated view types over aliased leaves - chain exp(tanh(x)), diamond add(tanh(x),exp(x)), '
                          'a leaf used inside a sub-view and directly (both operand orders), two leaves, a two-leaf diamond - the translated real code yields exactly the expected node set (leaf alias ids + view ids, all distinct) '
                          'and edge set (one edge per operation input)',
                   quick=[{'PROG': p} for p in GPROGS], thorough=[{'PROG': p} for p in GPROGS])]
OUTSIDE = [
 'the compute-graph sub-claim is checked STRUCTURALLY only (harness graph): the graph depends on types, there is no symbolic variable and nothing for a solver to quantify over; the six enumerated view types are what is covered - '
 'other view types, graphs of functor compositions (get_compute_graph of a functor) and the node attributes (functor / operand payloads) are not',
 'functors are types: the list is enumerated (transpose, reshape, flip, slice, unary ufunc invert, sum / reduce_add with axis, binary ufuncs add and subtract, compositions of 2 and 3 functors, '
 'a reduction and a binary functor inside a composition); accumulate, outer, matmul, conv, pooling, norms, combinators swap/dup/dig/bury and compositions of more than 4 functors are not covered',
 'ufuncs with multiplication (square, multiply): the equivalence of two multiplier circuits over symbolically selected elements did not return in 300 s; invert/add/subtract are used instead',
 'extraction from the depth-2 view with a repeated leaf ((a+b)-a) checks the operand ADDRESSES and their number only; its element values are a 3-operand broadcast composition (no verdict, see C13)',
 'operand dims other than 2, extents > 4, element types other than unsigned 32-bit, slices with empty selections (open finding of C05)',
]
ASSUMPTIONS = [
 'variant 0 of every kernel is the direct view call; it is pinned to the NumPy shape and element (reference model in harnesses/C14.c), all other variants are compared with it at the same symbolic index',
 'operand identity is observed as pointer equality computed inside the kernel (returned as int)',
]
CLAIM = dict(
 text='For the enumerated functors the solver shows, with operand shape, data, attributes and the result index symbolic: view::f(a, attrs) == fn::f[attrs](a) == the composition extracted by '
      'get_function_composition applied to the leaf == fn::apply(composition, get_function_operands(view)) (same dim, shape and element; equal to NumPy); for binary functors additionally every curry split '
      '(fn::f(a,b), fn::f(a)(b), extracted f(a,b), f(a)(b)) with the operand order of subtract preserved; (f*g)(a) == f(g(a)) == the nested view; f*(g*h) == (f*g)*h == f*g*h == f(g(h(a))); all five parenthesisations of a 4-chain incl. (f*g)*(h*k); '
      'a reduction as outer functor; a binary functor as inner functor (all at once and curried) and as outer functor (remaining operand passed on); '
      'the extracted operands are the addresses of the original leaves, in order, one per occurrence (also for a repeated leaf). Structurally (no symbolic variable): the compute graph of six enumerated view types, incl. shared leaves, has exactly one node per leaf and per operation and one edge per operation input.',
 note='Bounded: 2-d hybrid operands, extents 1..3 (quick) / 1..4 (thorough). The functor list is enumerated. Compute graph: structural check of six enumerated view types (no symbolic variable). '
      'Trusted: clang-14 -O1 lowering, engine/ll2c.py, CBMC; validated per run by gate and witness assertions.')
