KERNELS = {'C14_functor': dict(src='kernels/C14_functor.cpp', flags=['-DNDEBUG'])}
def _c(e, **kw):
    c = {'MAXE': e, '_unwindset': ['in_data.0:%d' % (e*e + 2), 'k_fill_u32.0:%d' % (e*e + 2), 'agree.0:10', 'agree.1:10']}; c.update(kw); return c
B2 = 'hybrid 2-d operand(s) (buffer capacity 16), extents 1..MAXE, all element data, every attribute and the result index symbolic; the functor expression (a type) is enumerated'
def _h(name, unwind=8, quick=None, thorough=None, **kw):
    return dict(name=name, src='harnesses/C14.c', func='h_' + name, kernels=['C14_functor'], unwind=unwind,
                quick=quick or [_c(3)], thorough=thorough or [_c(4)], bounds=B2, **kw)
HARNESSES = [_h(n) for n in ('fn_transpose', 'fn_reshape', 'fn_flip', 'fn_slice', 'fn_invert', 'fn_sum')] + [
  _h(n, quick=[_c(3, VAR=v) for v in (1, 2, 3, 4, 5)], thorough=[_c(4, VAR=v) for v in (1, 2, 3, 4, 5)]) for n in ('fn_add', 'fn_subtract')]
OUTSIDE = []
ASSUMPTIONS = []
CLAIM = dict(text='', note='')
