KERNELS = {'C04_replicate': dict(src='kernels/C04_replicate.cpp', flags=['-DNDEBUG']),
           'C04_join': dict(src='kernels/C04_join.cpp', flags=['-DNDEBUG'])}
def _c(d, e, **kw):
    c = {'DIM': d, 'MAXE': e, '_unwindset': ['in_data.0:%d' % (e**d + 2), 'k_fill_u32.0:%d' % (e**d + 2)]}; c.update(kw); return c
def _dims(e, dims=(1, 2, 3), **kw): return [_c(d, e, **kw) for d in dims]
def _h(name, tu, src, unwind=8, quick=None, thorough=None, kf=(), **kw):
    """kf: TEMPORARY exclusion macros of pending findings (see PENDING_FINDINGS), added to every configuration of the harness"""
    q = quick or _dims(3); t = thorough or _dims(4)
    for c in q + t:
        for m in kf: c[m] = 1
    return dict(name=name, src='harnesses/%s.c' % src, func='h_' + name, kernels=[tu], unwind=unwind, quick=q, thorough=t, **kw)
BD = 'hybrid source array (capacity 64) of dim DIM (enumerated 1..3), every extent 1..MAXE, all element data, the result index and the arguments symbolic'
B2 = 'two hybrid source arrays (capacity 64) of dim DIM (enumerated 1..3), extents 1..MAXE, both data buffers, the result index and the arguments symbolic'
HARNESSES = [
 _h('tile', 'C04_replicate', 'C04_replicate', bounds=BD + '; reps: list of 1..4 entries each 1..3'),
 _h('repeat', 'C04_replicate', 'C04_replicate', bounds=BD + '; scalar repeats 1..3, axis in [-DIM,DIM)', kf=['KF_C04_REPEAT_NEGAXIS']),
 _h('repeat_flat', 'C04_replicate', 'C04_replicate', bounds=BD + '; scalar repeats 1..3, axis=None'),
 _h('roll', 'C04_replicate', 'C04_replicate', bounds=BD + '; shift in [-2n,2n] (n the rolled extent), axis in [-DIM,DIM)', kf=['KF_C04_ROLL_BIGSHIFT']),
 _h('roll_flat', 'C04_replicate', 'C04_replicate', bounds=BD + '; shift in [-2*numel,2*numel], axis=None', kf=['KF_C04_ROLL_BIGSHIFT']),
 _h('take', 'C04_join', 'C04_join', bounds=BD + '; index list of 1..4 entries in [-n,n) (repeats allowed), axis in [-DIM,DIM)'),
 _h('take_flat', 'C04_join', 'C04_join', bounds=BD + '; flat index list of 1..4 entries in [-numel,numel), axis=None'),
 _h('concatenate', 'C04_join', 'C04_join', bounds=B2 + '; axis in [-DIM,DIM), b differs from a along axis only'),
 _h('concatenate_flat', 'C04_join', 'C04_join', bounds=B2 + '; axis=None, independent shapes'),
 _h('stack', 'C04_join', 'C04_join', bounds=B2 + '; identical shapes, axis in [-(DIM+1),DIM]'),
 _h('stack_default', 'C04_join', 'C04_join', bounds=B2 + '; identical shapes, default axis'),
 _h('hstack', 'C04_join', 'C04_join', bounds=B2),
 _h('vstack', 'C04_join', 'C04_join', bounds=B2),
 _h('dstack', 'C04_join', 'C04_join', bounds=B2),
 _h('column_stack', 'C04_join', 'C04_join', bounds=B2),
]
OUTSIDE = []
ASSUMPTIONS = []
PENDING_FINDINGS = [
 dict(id='C04-repeat-negative-axis', harness='repeat', exclude_define='KF_C04_REPEAT_NEGAXIS', witness_config={'DIM': 1, 'MAXE': 3},
      witness_inputs=['0x3', '0x0', '0x0', '0x10', '0x3', '0xffffffffffffffff', '0x8', '0x8', '0x0', '0x0'],
      what='view::repeat(a, repeats, axis) with a negative axis: shape_repeat normalises the axis (shape is NumPy\'s) but index::repeat compares the loop counter with the raw '
           'axis (repeat.hpp:244), so no index is divided by repeats: a=[0,0,16], repeats=3, axis=-1, element 8 reads source index 8 (outside the 3-element source; NumPy: a[2]=16)'),
 dict(id='C04-roll-shift-beyond-extent', harness='roll', exclude_define='KF_C04_ROLL_BIGSHIFT', witness_config={'DIM': 1, 'MAXE': 3},
      witness_inputs=['0x2', '0x4922ba1f', '0x4902ba1f', '0x4902ba1f', '0x4', '0x0', '0x1', '0x0', '0x2', '0x2'],
      what='view::roll with |shift| > extent: index::roll applies a single wrap-around (normalize_roll_index, roll.hpp:118-128) instead of a modulo, so index-shift outside [-n,2n) '
           'stays outside the source: shape (2,), shift=4, axis=0, element 1 reads source index -1 -> out-of-bounds read (NumPy: a[(1-4) mod 2] = a[1])'),
 dict(id='C04-roll-shift-beyond-extent', harness='roll_flat', exclude_define='KF_C04_ROLL_BIGSHIFT', witness_config={'DIM': 1, 'MAXE': 3},
      witness_inputs=['0x3', '0xffffbfff', '0xffffffff', '0xffffffff', '0x4', '0x0', '0x0', '0x0', '0x0'],
      what='same defect through view::roll(a, shift) (axis=None): shape (3,), shift=4, element 0'),
]
CLAIM = dict(text='', note='')
