KERNELS = {'C04_replicate': dict(src='kernels/C04_replicate.cpp', flags=['-DNDEBUG']),
           'C04_join': dict(src='kernels/C04_join.cpp', flags=['-DNDEBUG']),
           'C04_window': dict(src='kernels/C04_window.cpp', flags=['-DNDEBUG']),
           'C04_generate': dict(src='kernels/C04_generate.cpp', flags=['-DNDEBUG']),
           'C04_select': dict(src='kernels/C04_select.cpp', flags=['-DNDEBUG']),
           'C04_split': dict(src='kernels/C04_split.cpp', flags=['-DNDEBUG']),
           'C04_multi': dict(src='kernels/C04_multi.cpp', flags=['-DNDEBUG']),
           'C04_index': dict(src='kernels/C04_index.cpp', flags=['-DNDEBUG'])}
def _c(d, e, **kw):
    c = {'DIM': d, 'MAXE': e, '_unwindset': ['in_data.0:%d' % (e**d + 2), 'k_fill_u32.0:%d' % (e**d + 2)]}; c.update(kw); return c
def _dims(e, dims=(1, 2, 3), **kw): return [_c(d, e, **kw) for d in dims]
def _h(name, tu, src, unwind=8, quick=None, thorough=None, kf=(), **kw):
    """kf: TEMPORARY exclusion macros of pending findings (see PENDING_FINDINGS), added to every configuration of the harness"""
    q = quick or _dims(3); t = thorough or _dims(4)
    for c in q + t:
        for m in kf: c[m] = 1
    return dict(name=name, src='harnesses/%s.c' % src, func='h_' + name, kernels=[tu], unwind=unwind, quick=q, thorough=t, thorough_includes_quick=False, **dict(dict(mem_gb=4), **kw))
def _d4(e, dims=(1, 2, 3), **kw): return _dims(e, dims, **kw) + [_c(4, 2, _unwind=10)]   # dim 4: extents 1..2 (hybrid capacity 64)
def _SP(e): return [_c(d, e, SECTIONS=n) for d in (1, 2, 3) for n in (1, 2, 3)]
BD = 'hybrid source array (capacity 64) of dim DIM (enumerated 1..3, and 4 with extents 1..2 where a DIM=4 query is listed), every extent 1..MAXE, all element data, the result index and the arguments symbolic'
B2 = 'two hybrid source arrays (capacity 64) of dim DIM (enumerated 1..3, and 4 with extents 1..2 where a DIM=4 query is listed), extents 1..MAXE, both data buffers, the result index and the arguments symbolic'
HARNESSES = [
 _h('tile', 'C04_replicate', 'C04_replicate', quick=_d4(3), thorough=_d4(4), bounds=BD + '; reps: list of 1..4 entries each 1..3'),
 _h('repeat', 'C04_replicate', 'C04_replicate', quick=_d4(3), thorough=_d4(4), bounds=BD + '; scalar repeats 1..3, axis in [-DIM,DIM)', kf=['KF_C04_REPEAT_NEGAXIS']),
 _h('repeat_flat', 'C04_replicate', 'C04_replicate', quick=_dims(3), thorough=_d4(4), bounds=BD + '; scalar repeats 1..3, axis=None'),
 _h('roll', 'C04_replicate', 'C04_replicate', quick=_d4(3), thorough=_d4(4), bounds=BD + '; shift in [-2n,2n] (n the rolled extent), axis in [-DIM,DIM)', kf=['KF_C04_ROLL_BIGSHIFT']),
 _h('roll_flat', 'C04_replicate', 'C04_replicate', quick=_dims(3), thorough=_d4(4), bounds=BD + '; shift in [-2*numel,2*numel], axis=None', kf=['KF_C04_ROLL_BIGSHIFT']),
 _h('take', 'C04_join', 'C04_join', quick=_d4(3), thorough=_d4(4), bounds=BD + '; index list of 1..4 entries in [-n,n) (repeats allowed), axis in [-DIM,DIM)', kf=['KF_C04_TAKE_NEGAXIS', 'KF_C04_TAKE_NEGINDEX']),
 _h('take_flat', 'C04_join', 'C04_join', quick=_dims(3), thorough=_d4(4), bounds=BD + '; flat index list of 1..4 entries in [-numel,numel), axis=None', kf=['KF_C04_TAKE_NEGINDEX']),
 _h('concatenate', 'C04_join', 'C04_join', quick=_dims(3), thorough=_d4(4), bounds=B2 + '; axis in [-DIM,DIM), b differs from a along axis only', kf=['KF_C04_CONCATENATE_NEGAXIS']),
 _h('concatenate_flat', 'C04_join', 'C04_join', quick=_dims(3), thorough=_d4(4), bounds=B2 + '; axis=None, independent shapes'),
 _h('stack', 'C04_join', 'C04_join', bounds=B2 + '; identical shapes, axis in [-(DIM+1),DIM]', kf=['KF_C04_STACK_NEGAXIS']),
 _h('stack_default', 'C04_join', 'C04_join', bounds=B2 + '; identical shapes, default axis'),
 _h('hstack', 'C04_join', 'C04_join', quick=_dims(3), thorough=_d4(4), bounds=B2),
 _h('vstack', 'C04_join', 'C04_join', quick=_dims(3), thorough=_d4(4), bounds=B2),
 _h('dstack', 'C04_join', 'C04_join', quick=_dims(3), thorough=_d4(4), bounds=B2),
 _h('column_stack', 'C04_join', 'C04_join', quick=_dims(3), thorough=_d4(4), bounds=B2),
 _h('pad', 'C04_window', 'C04_window', unwind=10, quick=_d4(3), thorough=_d4(4), bounds=BD + '; widths before/after per axis 0..2, fill value symbolic'),
 _h('sliding_axis', 'C04_window', 'C04_window', bounds=BD + '; scalar window 1..n, axis in [-DIM,DIM)'),
 _h('sliding_all', 'C04_window', 'C04_window', bounds=BD + '; one window extent 1..n_k per axis, axis=None'),
 _h('tril', 'C04_window', 'C04_window', quick=_d4(3), thorough=_d4(4), bounds=BD + '; k in [-MAXE,MAXE]'),
 _h('triu', 'C04_window', 'C04_window', quick=_dims(3), thorough=_d4(4), bounds=BD + '; k in [-MAXE,MAXE]'),
 _h('diagonal', 'C04_window', 'C04_window', quick=_d4(3, (2, 3)), thorough=_d4(4, (2, 3)), bounds=BD + ' (DIM 2..4); offset in (-MAXE,MAXE) incl. empty diagonals (shape only), axis1 != axis2 in [-DIM,DIM)', kf=['KF_C04_DIAGONAL_NEGOFFSET', 'KF_C04_DIAGONAL_BEYOND']),
 _h('diagonal_default', 'C04_window', 'C04_window', quick=_dims(3, (2, 3)), thorough=_d4(4, (2, 3)), bounds=BD + ' (DIM 2..4); default offset/axes'),
] + [
 _h(n, 'C04_generate', 'C04_generate', quick=[{'MAXN': 4}], thorough=[{'MAXN': 8}], bounds='N, M in 1..MAXN, k in [-MAXN,MAXN], result index: all symbolic' + x)
 for n, x in (('eye', ''), ('eye_square', '; M=None'), ('identity', '; identity(N)'), ('tri', ''), ('tri_square', '; M=None'))
] + [
 _h(n, 'C04_generate', 'C04_generate', quick=[{'MAXE': 3}], thorough=[{'MAXE': 4}], bounds='run-time shape (static_vector) of 1..4 extents in 1..MAXE, fill value, result index: all symbolic')
 for n in ('full', 'zeros', 'ones')
] + [
 _h(n, 'C04_generate', 'C04_generate', quick=_dims(3), thorough=_d4(4), bounds=BD) for n in ('full_like', 'zeros_like', 'ones_like')
] + [
 _h(n, 'C04_generate', 'C04_generate', quick=[{'RNG': 8, 'MAXSTEP': 3}, {'RNG': 1 << 26, 'MAXSTEP': 3, 'KF_C04_ARANGE_FLOATLEN': 1}], thorough=[{'RNG': 64, 'MAXSTEP': 9}, {'RNG': 1 << 26, 'MAXSTEP': 3, 'KF_C04_ARANGE_FLOATLEN': 1}],
    kf=['KF_C04_ARANGE_EMPTY'], bounds='int start, stop in [-RNG,RNG], step in [-MAXSTEP,MAXSTEP] minus 0 (arange2: step 1; arange1: start 0, step 1), element index: all symbolic; int dtype')
 for n in ('arange3', 'arange2', 'arange1')
] + [
 _h('expand', 'C04_select', 'C04_select', quick=_d4(3), thorough=_d4(4), bounds=BD + '; axis in [-DIM,DIM), spacing 0..2, fill value symbolic'),
 _h('resize', 'C04_select', 'C04_select', quick=_d4(3), thorough=_d4(4), bounds=BD + '; destination extents 1..5 per axis'),
 _h('compress', 'C04_select', 'C04_select', quick=_d4(3), thorough=_d4(4), bounds=BD + '; condition list of 1..min(4,n) truth values (every pattern incl. all-false), axis in [-DIM,DIM)', kf=['KF_C04_COMPRESS_NEGAXIS']),
 _h('compress_flat', 'C04_select', 'C04_select', quick=_dims(3), thorough=_d4(4), bounds=BD + '; condition list of 1..min(4,numel) truth values, axis=None'),
 _h('diagflat', 'C04_select', 'C04_select', quick=_dims(3), thorough=_d4(4), bounds=BD + '; k in [-2,2]'),
 _h('diagflat_ct', 'C04_select', 'C04_select', quick=[{'KCT': k} for k in (-2, -1, 0, 1, 2)], thorough=[{'KCT': k} for k in (-2, -1, 0, 1, 2)],
    bounds='view::diagflat(unsigned[3], k) with k a COMPILE-TIME constant (enumerated -2..2; the result shape is computed in the type system); data and result index symbolic'),
 _h('full_like_etype', 'C04_generate', 'C04_generate', unwind=18, quick=[{'MAXE': 3, 'WITH_DTYPE': 0}, {'MAXE': 3, 'WITH_DTYPE': 1}], thorough=[{'MAXE': 4, 'WITH_DTYPE': 0}, {'MAXE': 4, 'WITH_DTYPE': 1}],
    bounds='view::full_like(uint8 2-d array, unsigned fill value[, dtype=uint32]): element type of the result and the converted fill value; shape, data, value, index symbolic'),
 _h('split_args', 'C04_split', 'C04_split', quick=_SP(3), thorough=_SP(4), bounds='std::array shape of dim DIM (enumerated 1..3), extents 1..MAXE, axis in [-DIM,DIM), observed piece: symbolic; '
    'run-time section count enumerated 1..3 (dividing the extent); result is a std::vector of slice arguments'),
 _h('split_args_at', 'C04_split', 'C04_split', quick=_SP(3), thorough=_SP(4), bounds='std::array shape of dim DIM, extents 1..MAXE+1, strictly increasing cut positions inside (0,n), axis in [-DIM,DIM), observed piece: symbolic; '
    'number of cut positions enumerated 1..3'),
 _h('split', 'C04_split', 'C04_split', quick=_SP(3), thorough=_SP(4),
    bounds=BD + '; section count a per-query constant 1..3 (compile-time in nmtools) dividing the extent, axis in [-DIM,DIM), piece number symbolic'),
 _h('repeat_each', 'C04_multi', 'C04_multi', quick=_d4(3), thorough=_d4(4), kf=['KF_C04_REPEAT_NEGAXIS'], bounds=BD + '; one repeat count 0..3 per element along axis (sum >= 1), axis in [-DIM,DIM)'),
 _h('roll_axes', 'C04_multi', 'C04_multi', quick=_dims(3, (2, 3)), thorough=_dims(4, (2, 3)), kf=['KF_C04_ROLL_BIGSHIFT', 'KF_C04_ROLL_REPEATED_AXIS'], bounds=BD + ' (DIM 2..3); two axes in [-DIM,DIM) (equal or distinct), one shift in [-2n,2n] per axis'),
 _h('roll_axes_scalar', 'C04_multi', 'C04_multi', quick=_dims(3, (2, 3)), thorough=_dims(4, (2, 3)), kf=['KF_C04_ROLL_BIGSHIFT', 'KF_C04_ROLL_REPEATED_AXIS'], bounds=BD + ' (DIM 2..3); two axes (equal or distinct), one scalar shift'),
 _h('sliding_axes', 'C04_multi', 'C04_multi', quick=_dims(3, (2, 3)), thorough=_dims(4, (2, 3)), bounds=BD + ' (DIM 2..3); two distinct axes in [-DIM,DIM), window 1..n per axis'),
 _h('expand_axes', 'C04_multi', 'C04_multi', quick=_dims(3, (2, 3)), thorough=_dims(4, (2, 3)), bounds=BD + ' (DIM 2..3); two distinct axes, spacing 0..2 per axis, fill symbolic'),
 _h('expand_axes_scalar', 'C04_multi', 'C04_multi', quick=_dims(3, (2, 3)), thorough=_dims(4, (2, 3)), bounds=BD + ' (DIM 2..3); two distinct axes, scalar spacing 0..2'),
 ] + [
 _h('ix_' + n, 'C04_index', 'C04_index', quick=[dict({'MAXE': 6}, **kw)], thorough=[dict({'MAXE': 8}, **kw)],
    bounds='index level, static_vector<size_t,4> shapes: dimension 1..4, extents 1..MAXE, arguments and the destination index all symbolic' + x)
 for n, x, kw in (('tile', '; reps list of 1..4 entries 1..3', {}), ('repeat', '; scalar repeats 1..3, axis', {}), ('roll', '; shift in [-2n,2n], axis', {'KF_C04_ROLL_BIGSHIFT': 1}),
                  ('pad', '; 1..8 widths 0..2 (accepted iff 2*dim)', {'_unwind': 10}), ('take', '; index list of 1..4 non-negative entries, axis', {}),
                  ('concatenate', '; two shapes (agreeing and disagreeing off the axis), axis', {}), ('resize', '; destination of 1..4 extents 0..MAXE+2 (accepted iff same dim and positive)', {}))
 ] + [
 _h('where', 'C04_select', 'C04_select', quick=_dims(3), thorough=_d4(4), mem_gb=8, bounds='three hybrid arrays of one shape, dim DIM (enumerated 1..3), extents 1..MAXE, all three data buffers and the result index symbolic'),
]
OUTSIDE = [
 'linspace and arange on real (non-integer) grids: element values are IEEE expressions whose only solver oracle would be the same expression (weak); not claimed',
 'source dims > 4; dim 4 only with extents 1..2 (hybrid capacity 64) and only for the harnesses that list a DIM=4 query; extents > 4 at the view level (index-level harnesses: extents <= 8)',
 'empty results (diagonal at the matrix edge, all-false compress) are observed by shape only',
 'roll / sliding_window / expand over more than two axes; sliding_window / expand with a repeated axis; take with multi-dimensional index arrays; concatenate/stack of more than two operands (nmtools is binary)',
 'split with run-time sections/indices at the view level (returns a std::vector of views): covered at the slice-argument level (split_args) and, for a compile-time section count 1..3, at the view level',
 'where with broadcasting operands (C06); compile-time (constant) arguments and fixed-shape arrays (C09); invalid arguments (C15); evaluation into arrays (the views are read element-wise)',
 'the region of the one OPEN finding (negative axis in concatenate / stack): excluded by its KF_C04_* macro while its natively replayed witness still fails; the ten other defects found here '
 '(negative axis in repeat/take/compress, negative take indices, |shift| beyond one wrap in roll, repeated roll axis, negative diagonal offset, diagonal offset beyond the matrix, empty / >2^24 arange) are repaired in /repo and their regions are part of the proved domain',
]
ASSUMPTIONS = [
 'element type unsigned (symbolic 32-bit cells); position identity follows from equality for all data',
 'section counts of split and the list lengths that size std::vector results are per-query constants (enumerated), see bounds',
]
PENDING_FINDINGS = [
 dict(id='C04-repeat-negative-axis', harness='repeat', exclude_define='KF_C04_REPEAT_NEGAXIS', witness_config={'DIM': 1, 'MAXE': 3},
      witness_inputs=['0x3', '0x0', '0x0', '0x10', '0x3', '0xffffffffffffffff', '0x8', '0x8', '0x0', '0x0'],
      what='view::repeat(a, repeats, axis) with a negative axis: shape_repeat normalises the axis (shape is NumPy\'s) but index::repeat compares the loop counter with the raw '
           'axis (repeat.hpp:244), so no index is divided by repeats: a=[0,0,16], repeats=3, axis=-1, element 8 reads source index 8 (outside the 3-element source; NumPy: a[2]=16)'),
 dict(id='C04-roll-shift-beyond-extent', harness='roll', exclude_define='KF_C04_ROLL_BIGSHIFT', witness_config={'DIM': 1, 'MAXE': 3},
      witness_inputs=['0x2', '0x4922ba1f', '0x4902ba1f', '0x4902ba1f', '0x4', '0x0', '0x1', '0x0', '0x2', '0x2'],
      what='view::roll with |shift| > extent: index::roll applies a single wrap-around (normalize_roll_index, roll.hpp:118-128) instead of a modulo, so index-shift outside [-n,2n) '
           'stays outside the source: shape (2,), shift=4, axis=0, element 1 reads source index -1 -> out-of-bounds read (NumPy: a[(1-4) mod 2] = a[1])'),
 dict(id='C04-roll-shift-beyond-extent', harness='roll_flat', exclude_define='KF_C04_ROLL_BIGSHIFT', witness_config={'DIM': 1, 'MAXE': 3},
      witness_inputs=['0x3', '0xffffbfff', '0xffffffff', '0xffffffff', '0x4', '0x0', '0x0', '0x0', '0x0'],
      what='same defect through view::roll(a, shift) (axis=None): shape (3,), shift=4, element 0'),
 dict(id='C04-roll-shift-beyond-extent', harness='roll_axes', exclude_define='KF_C04_ROLL_BIGSHIFT', witness_config={'DIM': 2, 'MAXE': 3},
      witness_inputs=['0x3', '0x3', '0x0', '0x0', '0x20000000', '0x0', '0x0', '0x0', '0x0', '0x0', '0x0', '0x0', '0x1', '0x6', '0xfffffffffffffffe', '0x0', '0x0', '0x0', '0x2'],
      what='same defect with an axis list: shape (3,3), shift=(6,-2), axes=(0,1)'),
 dict(id='C04-roll-repeated-axis', harness='roll_axes', exclude_define='KF_C04_ROLL_REPEATED_AXIS', witness_config={'DIM': 2, 'MAXE': 3, 'KF_C04_ROLL_BIGSHIFT': 1},
      witness_inputs=['0x3', '0x2', '0x10', '0x10', '0x10', '0x10', '0x0', '0x0', '0x10', '0x10', '0x10', '0x0', '0x0', '0xfffffffffffffffc', '0x1', '0x0', '0x0', '0x2', '0x2'],
      what='view::roll with the same axis listed twice: NumPy accumulates the shifts, index::roll recomputes the source index from the destination index for every entry (roll.hpp:145-150) so the last '
           'shift wins: shape (3,2), shift=(-4,1), axes=(0,0) -> NumPy rolls axis 0 by -3 (identity), nmtools by 1'),
 dict(id='C04-roll-repeated-axis', harness='roll_axes_scalar', exclude_define='KF_C04_ROLL_REPEATED_AXIS', witness_config={'DIM': 2, 'MAXE': 3, 'KF_C04_ROLL_BIGSHIFT': 1},
      witness_inputs=['0x3', '0x2', '0x851a9e6a', '0x851a9a6a', '0x0', '0x0', '0x0', '0x851a9e6a', '0x851a9e6a', '0x851a9e6a', '0x851a9e6a', '0x0', '0xfffffffffffffffe', '0x4', '0x2', '0x1', '0x1', '0x2', '0x2'],
      what='same with a scalar shift: shape (3,2), shift=4, axes=(0,-2): NumPy rolls axis 0 by 8, nmtools by 4'),
 dict(id='C04-roll-shift-beyond-extent', harness='roll_axes_scalar', exclude_define='KF_C04_ROLL_BIGSHIFT', witness_config={'DIM': 2, 'MAXE': 3},
      witness_inputs=['0x3', '0x2', '0x0', '0x0', '0x0', '0x0', '0x0', '0x0', '0x0', '0x0', '0x0', '0x1', '0xfffffffffffffffe', '0x4', '0x2', '0x0', '0x1', '0x0', '0x2'],
      what='same defect with an axis list and a scalar shift: shape (3,2), shift=4, axes=(1,-2)'),
 dict(id='C04-roll-shift-beyond-extent', harness='ix_roll', exclude_define='KF_C04_ROLL_BIGSHIFT', witness_config={'MAXE': 6},
      witness_inputs=['0x2', '0x5', '0x4', '0x1', '0x2', '0x0', '0xfffffffffffffff7', '0x1', '0x1', '0x0', '0x4'],
      what='same defect in index::roll itself: shape (5,4), axis 0, shift -9, index (1,1): source index 10-5=5 is outside the extent 5 (expected (1+9) mod 5 = 0)'),
 dict(id='C04-repeat-negative-axis', harness='repeat_each', exclude_define='KF_C04_REPEAT_NEGAXIS', witness_config={'DIM': 1, 'MAXE': 3},
      witness_inputs=['0x2', '0x1', '0x0', '0x0', '0xffffffffffffffff', '0x0', '0x3', '0x3', '0x2', '0x0', '0x0', '0x8', '0x8'],
      what='same defect with per-element repeats: a=[1,0], repeats=[0,3], axis=-1, element 0 (NumPy: a[1])'),
 dict(id='C04-take-negative-axis', harness='take', exclude_define='KF_C04_TAKE_NEGAXIS', witness_config={'DIM': 1, 'MAXE': 3, 'KF_C04_TAKE_NEGINDEX': 1},
      witness_inputs=['0x2', '0x0', '0x100', '0x0', '0x4', '0xffffffffffffffff', '0x0', '0x0', '0x0', '0x0', '0x1', '0x0', '0x0', '0x0'],
      what='view::take(a, indices, axis) with a negative axis: index::shape_take / index::take compare the loop counter with the raw axis (take.hpp:35,88), so the axis is never '
           'matched: shape (2,), indices=[0,0,0,0], axis=-1 gives shape (2,) instead of (4,) and element 1 is a[1] instead of a[indices[1]]=a[0]'),
 dict(id='C04-take-negative-index', harness='take', exclude_define='KF_C04_TAKE_NEGINDEX', witness_config={'DIM': 1, 'MAXE': 3, 'KF_C04_TAKE_NEGAXIS': 1},
      witness_inputs=['0x2', '0x0', '0x10', '0x10', '0x4', '0x0', '0x0', '0x0', '0xffffffffffffffff', '0xfffffffffffffffe', '0x2', '0x0', '0x0', '0x0'],
      what='view::take with a negative entry in the index list (NumPy: counts from the end): the entry is used as the source index unchanged -> out-of-bounds read: '
           'shape (2,), indices=[0,0,-1,-2], axis=0, element 2 (NumPy: a[-1]=a[1])'),
 dict(id='C04-take-negative-index', harness='take_flat', exclude_define='KF_C04_TAKE_NEGINDEX', witness_config={'DIM': 1, 'MAXE': 3},
      witness_inputs=['0x3', '0x0', '0x0', '0x400000', '0x4', '0xfffffffffffffffe', '0xfffffffffffffffe', '0x2', '0xfffffffffffffffe', '0x0'],
      what='same defect with axis=None: shape (3,), indices=[-2,-2,2,-2], element 0 (NumPy: a[1])'),
 dict(id='C04-concatenate-negative-axis', harness='concatenate', exclude_define='KF_C04_CONCATENATE_NEGAXIS', witness_config={'DIM': 1, 'MAXE': 3},
      witness_inputs=['0xffffffffffffffff', '0x2', '0x2', '0x1', '0x2', '0x0', '0x3', '0x4', '0x0', '0x2', '0x0', '0x0', '0x0'],
      what='view::concatenate(a, b, axis) with a negative axis: index::shape_concatenate / index::concatenate compare the loop counter with the raw axis '
           '(concatenate.hpp:197,93), so the joined extent is not a+b (the extents are compared for equality instead; differing extents give an unchecked failure under NDEBUG) '
           'and b\'s index is not shifted: a=[1,2], b=[3,4], axis=-1 -> shape (2,) instead of (4,)'),
 dict(id='C04-concatenate-negative-axis', harness='stack', exclude_define='KF_C04_STACK_NEGAXIS', witness_config={'DIM': 1, 'MAXE': 3},
      witness_inputs=['0xfffffffffffffffe', '0x3', '0x1', '0x0', '0x0', '0x0', '0x0', '0x0', '0x0', '0x0', '0x0', '0x2', '0x2'],
      what='same defect through view::stack(a, b, axis) with a negative axis (expand_dims handles it, the inner concatenate does not): two (3,) arrays, axis=-2 -> shape is not (2,3)'),
 dict(id='C04-diagonal-negative-offset', harness='diagonal', exclude_define='KF_C04_DIAGONAL_NEGOFFSET', witness_config={'DIM': 2, 'MAXE': 3},
      witness_inputs=['0x3', '0x3', '0x0', '0x80000000', '0x80000000', '0x80000000', '0x0', '0x80000000', '0x80000000', '0x80000000', '0x80000000',
                      '0xfffffffffffffffe', '0x0', '0x1', '0x0', '0x0', '0x0', '0x2'],
      what='view::diagonal(a, offset<0, axis1, axis2): index::diagonal sets index[axis1]=i and index[axis2]=i+offset (diagonal.hpp:80-81), i.e. a negative column index, '
           'instead of index[axis1]=i-offset, index[axis2]=i: shape (3,3), offset=-2, axes (0,1), element 0 reads a[0,-2] (out-of-bounds; NumPy: a[2,0]); the shape is NumPy\'s'),
 dict(id='C04-diagonal-offset-beyond-matrix', harness='diagonal', exclude_define='KF_C04_DIAGONAL_BEYOND', witness_config={'DIM': 2, 'MAXE': 3, 'KF_C04_DIAGONAL_NEGOFFSET': 1},
      witness_inputs=['0x1', '0x2', '0x0', '0x0', '0x0', '0x0', '0x0', '0x0', '0x0', '0x0', '0x0', '0x2', '0x1', '0xfffffffffffffffe', '0x0', '0x2', '0x2', '0x2'],
      what='view::diagonal with an offset more than one step beyond the matrix: index::shape_diagonal takes min(n1, n2-offset) without clamping at 0 (diagonal.hpp:44-49), so the extent is a '
           'negative number stored as size_t: shape (1,2), offset=2, axis1=1, axis2=-2 -> NumPy shape (0,), nmtools (2^64-1,)'),
 dict(id='C04-arange-empty-range', harness='arange3', exclude_define='KF_C04_ARANGE_EMPTY', witness_config={'RNG': 8, 'MAXSTEP': 3},
      witness_inputs=['0xfffffffffffffff8', '0x8', '0xffffffffffffffff', '0x0'],
      what='view::arange with an empty range (stop on the wrong side of start for the sign of step): index::arange_shape computes ceil_(float(stop-start)/step) and converts the negative '
           'quotient to size_t (arange.hpp:13-15,28), so the length is not 0: arange(-8, 8, -1) has NumPy shape (0,), nmtools reports a huge extent (float->unsigned conversion of a negative value)'),
 dict(id='C04-arange-empty-range', harness='arange2', exclude_define='KF_C04_ARANGE_EMPTY', witness_config={'RNG': 8, 'MAXSTEP': 3},
      witness_inputs=['0xfffffffffffffffe', '0xfffffffffffffffa', '0x3', '0x0'], what='same: arange(-2, -6)'),
 dict(id='C04-arange-empty-range', harness='arange1', exclude_define='KF_C04_ARANGE_EMPTY', witness_config={'RNG': 8, 'MAXSTEP': 3},
      witness_inputs=['0x8', '0xfffffffffffffff8', '0x3', '0x0'], what='same: arange(-8)'),
 dict(id='C04-compress-negative-axis', harness='compress', exclude_define='KF_C04_COMPRESS_NEGAXIS', witness_config={'DIM': 1, 'MAXE': 3},
      witness_inputs=['0x2', '0x0', '0x0', '0x0', '0xffffffffffffffff', '0x1', '0x0', '0x0', '0x1', '0x1', '0x0', '0x0', '0x0', '0x0'],
      what='view::compress(condition, a, axis) with a negative axis: index::shape_compress / index::compress compare the loop counter with the raw axis (compress.hpp:41,78): '
           'shape (2,), condition=[False], axis=-1 gives shape (2,) instead of (0,) (and with true entries the selected positions are not applied)'),
 dict(id='C04-arange-float-length', harness='arange3', exclude_define='KF_C04_ARANGE_FLOATLEN', witness_config={'RNG': 1 << 26, 'MAXSTEP': 3, 'KF_C04_ARANGE_EMPTY': 1},
      witness_inputs=['0xfffffffffc000000', '0x3ffffff', '0x3', '0x0'],
      what='view::arange on integer grids longer than 2^24: the length is ceil_(float(stop-start)/step) in single precision (arange.hpp:28), off by one once stop-start exceeds the 24-bit mantissa: '
           'arange(-67108864, 67108863, 3) has 44739243 elements in NumPy, nmtools reports a different length'),
]
CLAIM = dict(
 text='For hybrid source arrays of dim 1..3 (dim 4 with extents 1..2 where listed) with every extent, every argument, all element data and the result index symbolic, the solver shows that '
      'tile, repeat (scalar / per-element, axis / None), roll (one / two axes / None), take (axis / None), compress (axis / None), concatenate (axis / None), stack, hstack, vstack, dstack, '
      'column_stack, split (slice arguments; pieces for 1..3 sections), sliding_window (scalar+axis / per-axis / two axes), diagonal (every offset incl. negative ones and offsets beyond the matrix), diagflat (k run-time and as a compile-time constant), tril, triu, where, eye, identity, tri, '
      'full/zeros/ones(_like) (full_like also with a fill value of another type: element type of the prototype, or the explicit dtype) and integer arange (incl. empty ranges and ranges longer than 2^24) return NumPy\'s shape and NumPy\'s element, and that pad (constant fill, per-side widths), resize (floor(i*src/dst)) and expand '
      '(spacing insertion with fill) return the shape and element of their documented definitions; the index-level maps (tile, repeat, roll, pad, take, concatenate, resize) are shown in addition on '
      'bounded shapes of symbolic dimension 1..4. Of the eleven natively reproduced defects found here, ten are repaired in /repo (the harnesses run on the full domain); the open one (negative axis of concatenate / stack: unsupported by design, source says TODO) is excluded and reported as KNOWN-FINDING.',
 note='Bounded: extents 1..3 (quick) / 1..4 (thorough) at the view level, 1..6 / 1..8 at the index level; reps/repeats 1..3, pad widths 0..2, shifts in [-2n,2n], spacing 0..2, resize targets 1..5; '
      'binary joins only. Real-grid arange/linspace are outside. Trusted: clang-14 -O1 lowering, engine/ll2c.py, CBMC; validated per run by gate and witness assertions.')
