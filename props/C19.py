# C19: STL-free containers against their std counterparts over bounded histories
import os
KERNELS = {'C19_containers': dict(src='kernels/C19_containers.cpp', flags=['-DNDEBUG'])}
_PENDING_ON = not os.environ.get('NMV_NO_PENDING')
_US = ['ll_memcpy_loop.0:50', 'll_memmove_loop.0:50', 'll_memmove_loop.1:50', 'll_memset_loop.0:50']
LEAK = ['--memory-leak-check', '--slice-formula']
HARNESSES = []
def _h(name, func, bounds, quick, thorough=None, kf=None, unwind=14, **kw):
    def cf(cs):
        out = []
        for c in cs:
            c = dict(c, _unwindset=_US)
            if _PENDING_ON:
                for k in (kf or []): c[k] = 1          # TEMPORARY: pending findings (see PENDING_FINDINGS)
            out.append(c)
        return out
    HARNESSES.append(dict(name=name, src='harnesses/C19.c', func=func, kernels=['C19_containers'], unwind=unwind, bounds=bounds,
                          quick=cf(quick), thorough=cf(thorough or quick), **kw))

HB = ('two live objects are first driven by CONCRETE prefixes PRE0/PRE1 (per-query constants out of: nothing | push x2 | push x4 (initial buffer full) | push x5 (grown by push_back) | resize(6) | '
      'resize(6),resize(1) (shrunk, spare capacity) | push x3,resize(0); pushed values symbolic), then K symbolic steps: operation in {push_back(v), resize(0..cap+2), write(i,v) at an existing index, '
      'assign other, self-assign, copy-construct(other)+assign, sized-construct(n)+assign}, target object, arguments n and v (any 32-bit value); '
      'sizes and all elements of BOTH objects compared with an array-based std::vector model after the history')
def _pre(pairs, **kw): return [dict(kw, PRE0=a, PRE1=b) for a, b in pairs]
QP = [(0, 0), (1, 3), (3, 1), (2, 5), (5, 4), (4, 6), (6, 2)]
ALLP = [(a, b) for a in range(7) for b in range(7)]
HEAPF = ['--memory-leak-check', '--slice-formula']
_h('hist_vector', 'h_hist', 'utl::vector<int> (heap, malloc/free; CBMC heap model with --memory-leak-check); ' + HB, quick=_pre(QP, KIND=0, K=1, OUTCAP=8), thorough=_pre(ALLP, KIND=0, K=1, OUTCAP=8) + [dict(KIND=0, K=2, OUTCAP=9, PRE0=0, PRE1=0, _timeout=1800, _mem_gb=14)],
   cbmc_flags=HEAPF, unwind=10, mem_gb=6, kf=['KF_C19_VECTOR_SIZED_CTOR_UNINIT', 'KF_C19_VECTOR_ZERO_LEAK'])
_h('hist_static_vector', 'h_hist', 'utl::static_vector<int,4>; ' + HB + '; over-capacity push_back/resize must be refused with contents unchanged', quick=_pre([(0, 0)], KIND=1, K=3, OUTCAP=8) + _pre([(2, 1), (5, 3)], KIND=1, K=2, OUTCAP=8),
   thorough=_pre([(0, 0)], KIND=1, K=5, OUTCAP=8) + _pre(ALLP, KIND=1, K=2, OUTCAP=8), unwind=10, kf=['KF_C19_STATIC_RESIZE_STALE'])
_h('hist_small_vector_stl', 'h_hist', 'small_vector<int,3> over std::variant<utl::static_vector, std::vector> (switches to the heap beyond 3 elements), with --memory-leak-check; ' + HB, quick=_pre([(0, 0), (1, 2), (2, 1), (5, 6)], KIND=2, K=1, OUTCAP=8),
   thorough=_pre(ALLP, KIND=2, K=1, OUTCAP=8), cbmc_flags=HEAPF, unwind=10, mem_gb=6, kf=['KF_C19_STATIC_RESIZE_STALE'])
_h('hist_small_vector_utl', 'h_hist', 'small_vector<int,3> over utl::either<utl::static_vector, utl::vector>, with --memory-leak-check; ' + HB, quick=_pre([(0, 0), (1, 2), (2, 1), (5, 6)], KIND=3, K=1, OUTCAP=8),
   thorough=_pre(ALLP, KIND=3, K=1, OUTCAP=8), cbmc_flags=HEAPF, unwind=10, mem_gb=6, kf=['KF_C19_STATIC_RESIZE_STALE'])
_h('ctor', 'h_ctor', 'utl::vector(N) N in 0..6 and utl::vector(a,b,c), with --memory-leak-check', quick=[{}], cbmc_flags=LEAK)
_h('ctor_static', 'h_ctor_static', 'utl::static_vector<int,4>(N), N in 0..6', quick=[{}])
_h('copy_independent', 'h_copy_independent', 'utl::vector copy, then a write to the source at a symbolic index; size 1..6, all values symbolic; with --memory-leak-check', quick=[{}], cbmc_flags=LEAK)
_h('array', 'h_array', 'utl::array<int,4>: K symbolic steps from {operator[] write, at() write, assign other, self-assign, copy-construct+assign} on two objects with symbolic initial contents', quick=[{'K': 4}], thorough=[{'K': 7}])
_h('tuple', 'h_tuple', 'utl::tuple / utl::tuplev2 <int, unsigned char, size_t>: K symbolic steps from {get<0|1|2> write, assign other, self-assign, copy-construct+assign} on two objects', quick=[{'K': 4, 'TUPLEV': 1}, {'K': 4, 'TUPLEV': 2}], thorough=[{'K': 7, 'TUPLEV': 1}, {'K': 7, 'TUPLEV': 2}])
_h('maybe', 'h_maybe', 'utl::maybe<int>: K symbolic steps from {assign value, assign nothing, assign other, self-assign, copy-construct+assign, value-construct+assign, write through *} on two objects', quick=[{'K': 4}], thorough=[{'K': 7}])
_h('maybe_f64', 'h_maybe_f64', 'utl::maybe<double>: same alphabet, values any bit pattern', quick=[{'K': 4}], thorough=[{'K': 7}])
_h('either', 'h_either', 'utl::either<int,unsigned char>: K symbolic steps from {assign left, assign right, assign other, self-assign, copy-construct+assign, construct-left/right+assign}', quick=[{'K': 4}], thorough=[{'K': 7}])
_h('either_heap', 'h_either_heap', 'utl::either<int, utl::vector<int>> (non-trivial alternative), with --memory-leak-check', quick=[{'K': 2}], thorough=[{'K': 3}], cbmc_flags=LEAK)
_h('maybe_heap', 'h_maybe_heap', 'utl::maybe<utl::vector<int>> (non-trivial value), with --memory-leak-check', quick=[{'K': 2}], thorough=[{'K': 3}], cbmc_flags=LEAK)
PENDING_FINDINGS = []
OUTSIDE = []
ASSUMPTIONS = []
CLAIM = dict(text='', note='')
