# C19: STL-free containers against their std counterparts over bounded histories
import os
KERNELS = {'C19_containers': dict(src='kernels/C19_containers.cpp', flags=['-DNDEBUG'])}
_PENDING_ON = not os.environ.get('NMV_NO_PENDING')
_US = ['ll_memcpy_loop.0:50', 'll_memmove_loop.0:50', 'll_memmove_loop.1:50', 'll_memset_loop.0:50']
LEAK = ['--memory-leak-check', '--slice-formula']
HARNESSES = []
def _h(name, func, bounds, quick, thorough=None, kf=None, unwind=14, **kw):
    def cf(cs):
        out = []
        for c in cs:
            c = dict(c, _unwindset=_US)
            if _PENDING_ON:
                for k in (kf or []): c[k] = 1          # TEMPORARY: pending findings (see PENDING_FINDINGS)
            out.append(c)
        return out
    kw.setdefault('backend', 'cadical')
    HARNESSES.append(dict(name=name, src='harnesses/C19.c', func=func, kernels=['C19_containers'], unwind=unwind, bounds=bounds,
                          quick=cf(quick), thorough=cf(thorough or quick), **kw))

HB = ('two live objects are first driven by CONCRETE prefixes PRE0/PRE1 (per-query constants out of: nothing | push x2 | push x4 (initial buffer full) | push x5 (grown by push_back) | resize(6) | '
      'resize(6),resize(1) (shrunk, spare capacity) | push x3,resize(0); pushed values symbolic), then K symbolic steps: operation in {push_back(v), resize(0..cap+2), write(i,v) at an existing index, '
      'assign other, self-assign, copy-construct(other)+assign, sized-construct(n)+assign}, target object, arguments n and v (any 32-bit value); '
      'sizes and all elements of BOTH objects compared with an array-based std::vector model after the history')
def _pre(pairs, **kw): return [dict(kw, PRE0=a, PRE1=b) for a, b in pairs]
QP = [(0, 0), (1, 3), (3, 1), (2, 5), (5, 4), (4, 6), (6, 2)]
ALLP = [(a, b) for a in range(7) for b in range(7)]
HEAPF = ['--memory-leak-check', '--slice-formula']
# pairs that contain the sized constructor (op 6) used to lie inside two findings on utl::vector(N) (uninitialised cells / leaked malloc(0) block); both are repaired (5d096ac, 5a91a2c) and the pairs are enumerated
# a write (op 2) needs a non-empty target: as FIRST step on the empty default state, or right after an assign / copy / self-assign between two empty objects (ops 3, 4, 5), no valid index exists -
# those pairs have an empty input domain (their harness would be vacuous) and are not scheduled
_VACUOUS = lambda a, b: a == 2 or (b == 2 and a in (3, 4, 5))
OPS2 = [(a, b) for a in range(7) for b in range(7) if not _VACUOUS(a, b)]
def _ops(pairs, **kw): return [dict(kw, OP0=a, OP1=b) for a, b in pairs]
_h('hist_vector', 'h_hist', 'utl::vector<int> (heap, malloc/free; CBMC heap model with --memory-leak-check); ' + HB,
   quick=_pre([(0, 0)], KIND=0, K=1, OUTCAP=8), thorough=_pre(ALLP, KIND=0, K=1, OUTCAP=8) + [dict(KIND=0, K=2, OUTCAP=9, PRE0=0, PRE1=0, _timeout=1800, _mem_gb=14)],
   cbmc_flags=HEAPF, unwind=10, mem_gb=8, kf=['KF_C19_VECTOR_SIZED_CTOR_UNINIT', 'KF_C19_VECTOR_ZERO_LEAK'])
_OPS2_ONLY = os.environ.get('C19_OPS2')      # builder aid: "6,0" runs just that pair
_h('hist_vector_ops2', 'h_hist', 'utl::vector<int>, two live objects, histories of 2 steps whose OPERATIONS are per-query constants (every ordered pair of the 7-letter alphabet that has a non-empty input domain - 39 of 49 - in the thorough tier, 8 pairs quick); '
   'targets and arguments n, v symbolic; sizes/elements of both objects against the std::vector model; --memory-leak-check',
   quick=_ops([tuple(int(x) for x in _OPS2_ONLY.split(','))] if _OPS2_ONLY else [(0, 1), (1, 0), (1, 1), (5, 1), (3, 0), (1, 3), (0, 5), (1, 2)], KIND=0, K=2, OUTCAP=9),
   thorough=_ops(OPS2, KIND=0, K=2, OUTCAP=9), cbmc_flags=HEAPF, unwind=10, mem_gb=6, kf=['KF_C19_VECTOR_SIZED_CTOR_UNINIT', 'KF_C19_VECTOR_ZERO_LEAK'])
_h('hist_static_vector', 'h_hist', 'utl::static_vector<int,4>; ' + HB + '; over-capacity push_back/resize must be refused with contents unchanged', quick=_pre([(0, 0)], KIND=1, K=3, OUTCAP=8) + _pre([(2, 1), (5, 3)], KIND=1, K=2, OUTCAP=8),
   thorough=_pre([(0, 0)], KIND=1, K=5, OUTCAP=8) + _pre(ALLP, KIND=1, K=2, OUTCAP=8), unwind=10, kf=['KF_C19_STATIC_RESIZE_STALE'])
SVOPS = [dict(OP0=0, PRE0=0, PRE1=0)] + [dict(OP0=o, PRE0=1, PRE1=6) for o in (2, 3, 4, 5)]
SVB = ('; in-place (static) mode only: K=1, the operation is a per-query constant out of {push_back from empty, write, assign other, self-assign, copy-construct+assign} on objects prepared by concrete prefixes, '
       'target and arguments symbolic. Any query in which an object switches to its heap alternative (pointer stored in a union) gave no verdict: see OUTSIDE')
_h('hist_small_vector_utl', 'h_hist', 'small_vector<int,3> over utl::either<utl::static_vector, utl::vector>, with --memory-leak-check' + SVB, quick=[dict(c, KIND=3, K=1, OUTCAP=8) for c in SVOPS],
   thorough=[dict(c, KIND=3, K=1, OUTCAP=8) for c in SVOPS] + [dict(KIND=3, K=1, OUTCAP=8, OP0=1, PRE0=1, PRE1=6, _timeout=1800, _mem_gb=14)], cbmc_flags=HEAPF, unwind=10, mem_gb=6, kf=['KF_C19_STATIC_RESIZE_STALE'])
_h('hist_small_vector_stl', 'h_hist', 'small_vector<int,3> over std::variant<utl::static_vector, std::vector>, with --memory-leak-check' + SVB, quick=[dict(c, KIND=2, K=1, OUTCAP=8) for c in SVOPS],
   cbmc_flags=HEAPF, unwind=10, mem_gb=6, kf=['KF_C19_STATIC_RESIZE_STALE'])
_h('ctor', 'h_ctor', 'utl::vector(N) N in 0..6 and utl::vector(a,b,c), with --memory-leak-check', quick=[{}], cbmc_flags=LEAK, kf=['KF_C19_VECTOR_SIZED_CTOR_UNINIT'])
_h('ctor_static', 'h_ctor_static', 'utl::static_vector<int,4>(N), N in 0..6', quick=[{}], kf=['KF_C19_STATIC_SIZED_CTOR_OVER_CAPACITY'])
_h('copy_then_grow', 'h_copy_then_grow', 'utl::vector copy-constructed from a vector of NSRC elements, then NPUSH push_backs into the COPY (sizes are per-query constants: quick 5 pairs, thorough all of 0..5 x 0..3); all values symbolic; with --memory-leak-check',
   quick=[{'NSRC': a, 'NPUSH': b} for a, b in ((1, 1), (3, 2), (4, 1), (5, 3), (2, 3))], thorough=[{'NSRC': a, 'NPUSH': b, '_mem_gb': 12} for a in range(6) for b in range(4)], cbmc_flags=LEAK, mem_gb=6)
_h('copy_independent', 'h_copy_independent', 'utl::vector copy, then a write to the source at a symbolic index; size 1..6, all values symbolic; with --memory-leak-check', quick=[{}], cbmc_flags=LEAK)
_h('array', 'h_array', 'utl::array<int,4>: K symbolic steps from {operator[] write, at() write, assign other, self-assign, copy-construct+assign} on two objects with symbolic initial contents', quick=[{'K': 4}], thorough=[{'K': 6}])
_h('tuple', 'h_tuple', 'utl::tuple / utl::tuplev2 <int, unsigned char, size_t>: K symbolic steps from {get<0|1|2> write, assign other, self-assign, copy-construct+assign} on two objects', quick=[{'K': 3, 'TUPLEV': 1}, {'K': 3, 'TUPLEV': 2}], thorough=[{'K': 5, 'TUPLEV': 1}, {'K': 5, 'TUPLEV': 2}])
_h('maybe', 'h_maybe', 'utl::maybe<int>: K symbolic steps from {assign value, assign nothing, assign other, self-assign, copy-construct+assign, value-construct+assign, write through *} on two objects', quick=[{'K': 4}], thorough=[{'K': 7}])
_h('maybe_f64', 'h_maybe_f64', 'utl::maybe<double>: same alphabet, values any bit pattern', quick=[{'K': 4}], thorough=[{'K': 7}])
_h('either', 'h_either', 'utl::either<int,unsigned char>: K symbolic steps from {assign left, assign right, assign other, self-assign, copy-construct+assign, construct-left/right+assign}', quick=[{'K': 4}], thorough=[{'K': 7}])
_h('either_heap', 'h_either_heap', 'utl::either<int, utl::vector<int>> (non-trivial alternative), with --memory-leak-check', quick=[{'K': 1}], thorough=[{'K': 2, '_timeout': 1800, '_mem_gb': 12}], cbmc_flags=LEAK, mem_gb=6, kf=['KF_C19_EITHER_NONTRIVIAL'])
_h('maybe_heap', 'h_maybe_heap', 'utl::maybe<utl::vector<int>> (non-trivial value), with --memory-leak-check', quick=[{'K': 1}], thorough=[{'K': 2, '_timeout': 1800, '_mem_gb': 12}], cbmc_flags=LEAK, mem_gb=6, kf=['KF_C19_MAYBE_NONTRIVIAL'])
# BEGIN PENDING_FINDINGS (generated from the replay files by the builder; one entry per harness that uses an exclusion macro)
PENDING_FINDINGS = [
 dict(id='F-C19-vector-sized-ctor-uninit', harness='ctor', exclude_define='KF_C19_VECTOR_SIZED_CTOR_UNINIT', witness_config={},
      witness_inputs=['0x1'],
      what='utl::vector<int>(N) leaves its N elements uninitialised (std::vector(N) value-initialises)'),
 dict(id='F-C19-vector-zero-leak', harness='ctor', exclude_define='KF_C19_VECTOR_ZERO_LEAK', witness_config={},
      witness_inputs=['0x0', '0x0', '0x0', '0x0'],
      what='utl::vector(0): the malloc(0) block is never freed (destructor skips buffer_size_ == 0)'),
 dict(id='F-C19-static-sized-ctor-over-capacity', harness='ctor_static', exclude_define='KF_C19_STATIC_SIZED_CTOR_OVER_CAPACITY', witness_config={},
      witness_inputs=['0x5'],
      what='utl::static_vector<int,4>(N) with N > 4 reports size() N > capacity'),
 dict(id='F-C19-either-nontrivial', harness='either_heap', exclude_define='KF_C19_EITHER_NONTRIVIAL', witness_config={'K': 1},
      witness_inputs=['0x1', '0x1', '0xffffffff00000000'],
      what='utl::either with a heap-owning alternative: the destructor never destroys the active member and copy/assignment assign into unconstructed storage (leaks / invalid frees)'),
 dict(id='F-C19-static-resize-stale', harness='hist_static_vector', exclude_define='KF_C19_STATIC_RESIZE_STALE', witness_config={'KIND': 1, 'K': 2, 'OUTCAP': 8, 'PRE0': 2, 'PRE1': 1},
      witness_inputs=['0x31524112', '0x31524112', '0x11', '0x11', '0x8803', '0x0', '0x0', '0x0', '0x0', '0x0', '0x3', '0x0', '0x0', '0x2', '0x1', '0x0', '0x4', '0xdf52beed'],
      what='utl::static_vector::resize growth (and small_vector in its in-place mode) exposes the old cell values instead of value-initialised elements'),
 dict(id='F-C19-vector-sized-ctor-uninit', harness='hist_vector', exclude_define='KF_C19_VECTOR_SIZED_CTOR_UNINIT', witness_config={'KIND': 0, 'K': 1, 'OUTCAP': 8, 'PRE0': 0, 'PRE1': 0},
      witness_inputs=['0x0', '0x0', '0x0', '0x0', '0x0', '0x0', '0x0', '0x0', '0x0', '0x0', '0x6', '0x0', '0x1', '0xffffffffa1524111'],
      what='utl::vector<int>(N) leaves its N elements uninitialised (std::vector(N) value-initialises)'),
 dict(id='F-C19-vector-zero-leak', harness='hist_vector', exclude_define='KF_C19_VECTOR_ZERO_LEAK', witness_config={'KIND': 0, 'K': 1, 'OUTCAP': 8, 'PRE0': 0, 'PRE1': 0},
      witness_inputs=['0x0', '0x0', '0x0', '0x0', '0x0', '0x0', '0x0', '0x0', '0x0', '0x0', '0x6', '0x0', '0x0', '0x0'],
      what='utl::vector(0): the malloc(0) block is never freed (destructor skips buffer_size_ == 0)'),
 dict(id='F-C19-vector-sized-ctor-uninit', harness='hist_vector_ops2', exclude_define='KF_C19_VECTOR_SIZED_CTOR_UNINIT', witness_config={'KIND': 0, 'K': 2, 'OUTCAP': 9, 'OP0': 6, 'OP1': 0},
      witness_inputs=['0x0', '0x0', '0x0', '0x0', '0x0', '0x0', '0x0', '0x0', '0x0', '0x0', '0x6', '0x0', '0x1', '0x0', '0x0', '0x0', '0x6', '0xffffffff00000080'],
      what='utl::vector<int>(N) leaves its N elements uninitialised (std::vector(N) value-initialises)'),
 dict(id='F-C19-vector-zero-leak', harness='hist_vector_ops2', exclude_define='KF_C19_VECTOR_ZERO_LEAK', witness_config={'KIND': 0, 'K': 2, 'OUTCAP': 9, 'OP0': 6, 'OP1': 0},
      witness_inputs=['0x0', '0x0', '0x0', '0x0', '0x0', '0x0', '0x0', '0x0', '0x0', '0x0', '0x6', '0x1', '0x0', '0x0', '0x0', '0x1', '0x0', '0x0'],
      what='utl::vector(0): the malloc(0) block is never freed (destructor skips buffer_size_ == 0)'),
 dict(id='F-C19-maybe-nontrivial', harness='maybe_heap', exclude_define='KF_C19_MAYBE_NONTRIVIAL', witness_config={'K': 1},
      witness_inputs=['0x0', '0x0', '0x0'],
      what='utl::maybe with a heap-owning value: assignment into an empty maybe assigns to an unconstructed T, nothing destroys the value (leaks / invalid frees)'),
]
# END PENDING_FINDINGS
OUTSIDE = [
 'utl::vector histories of more than 2 fully symbolic steps: with CBMC\'s heap model a 2-step history with all 7 operations symbolic exhausts 7 GB (and 3 steps on ONE object > 7 GB / no verdict in 400 s); '
 'reached instead: 1 symbolic step (all operations) after every pair of 7 concrete reachable pre-states (thorough) and all 39 two-operation sequences with a non-empty input domain, symbolic targets/arguments (thorough; 8 of them quick; the other 10 of the 49 ordered pairs put a write where no element can exist yet). '
 'A slot allocator behind nmtools_malloc/nmtools_free (kernels built with -DC19_POOL, kept in the source) did not help: K=2 gave no verdict in 600 s',
 'small_vector once an object switches to its heap alternative (std::vector / utl::vector stored in a variant/union) and small_vector::resize: no verdict (out of memory at 8.5 GB within 60 s for K=1 with a constant operation; '
 'resize: no verdict in 1149 s / 9.5 GB). Only its in-place mode is covered',
 'histories of length 7 / random length-200 sequences of the property text; element type double for the vector kinds (int only); read(i) as a separate operation (reads happen when the final state is observed)',
 'utl::either / utl::maybe with non-trivial alternatives beyond one step (every step that stores the heap-owning alternative is a pending finding)',
 'utl::tuple with non-trivial members; std-flavoured nmtools_* aliases (std::optional, std::variant, std::tuple are not the library\'s own containers)',
]
ASSUMPTIONS = ['malloc never fails; CBMC\'s heap model (fresh blocks hold nondeterministic values; --memory-leak-check at exit; pointer/bounds checks on every dereference)',
               'sized construction of a bounded vector beyond its capacity has no std counterpart: excluded from the histories, probed separately (ctor_static)']
CLAIM = dict(
 text='The solver shows that utl::vector<int> (1 symbolic step from 49 pairs of pre-states; every 2-operation sequence), utl::static_vector<int,4> (K <= 3 symbolic steps, up to 6 thorough), small_vector<int,3> in its in-place mode, '
      'utl::array<int,4>, utl::tuple / tuplev2 <int,unsigned char,size_t>, utl::maybe<int|double> and utl::either<int,unsigned char> hold, for two live objects and every choice of operation, target and arguments, '
      'exactly the sizes / elements / has_value / active alternative / members of the std::vector / std::array / std::tuple / std::optional / std::variant model: copies are independent of their source and can be grown on their own (copy-construct, then push_back into the copy), '
      'self-assignment changes nothing, over-capacity push_back/resize on static_vector is refused with contents unchanged; for the heap-backed vector no block is leaked or freed twice and every access stays inside its block.',
 note='Pending findings (excluded regions): utl::vector(N) leaves N cells uninitialised; utl::vector(0) leaks its block; static_vector::resize growth exposes stale cells; static_vector(N>capacity) reports size > capacity; '
      'either/maybe with a heap-owning alternative leak / assign into unconstructed storage. Bounded as stated per harness. Trusted: clang-14 -O1 lowering, engine/ll2c.py, CBMC heap model (cadical back end).')
