KERNELS = {'C13_thread': dict(src='kernels/C13_thread.cpp', flags=['-DNDEBUG'])}
def _c(e, **kw):
    c = {'MAXE': e, '_unwindset': ['in_data.0:%d' % (e*e + 2), 'k_fill_u32.0:%d' % (e*e + 2), 'step_ok.0:18', 'in_prior.0:18']}; c.update(kw); return c
BG = ('hybrid 2-d operand (buffer capacity 16) with extents 1..MAXE, all element data, view arguments, the prior content of all 16 output cells, '
      'thread id < block size, block id 0..32 and block size 1..33 are ALL symbolic (global id up to 1088, i.e. far beyond the output size)')
def _h(name, unwind=8, quick=None, thorough=None, **kw):
    return dict(name=name, src='harnesses/C13.c', func='h_' + name, kernels=['C13_thread'], unwind=unwind,
                quick=quick or [_c(3)], thorough=thorough or [_c(4)], bounds=BG, **kw)
HARNESSES = [_h(n) for n in ('th_write_side', 'th_transpose', 'th_reshape', 'th_flatten', 'th_flip', 'th_invert', 'th_add')]
OUTSIDE = []
ASSUMPTIONS = []
CLAIM = dict(text='', note='')
