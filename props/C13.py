KERNELS = {'C13_thread': dict(src='kernels/C13_thread.cpp', flags=['-DNDEBUG'])}
def _c(e, **kw):
    c = {'MAXE': e, '_unwindset': ['in_data.0:%d' % (e*e + 2), 'k_fill_u32.0:%d' % (e*e + 2), 'step_ok.0:18', 'in_prior.0:18']}; c.update(kw); return c
BG = ('hybrid 2-d operand (buffer capacity 16) with extents 1..MAXE, all element data, view arguments, the prior content of all 16 output cells, '
      'thread id < block size, block id 0..32 and block size 1..33 are ALL symbolic (global id up to 1088, i.e. far beyond the output size)')
def _h(name, unwind=8, quick=None, thorough=None, **kw):
    return dict(name=name, src='harnesses/C13.c', func='h_' + name, kernels=['C13_thread'], unwind=unwind,
                quick=quick or [_c(3)], thorough=thorough or [_c(4)], bounds=BG, **kw)
HARNESSES = [_h(n) for n in ('th_write_side', 'th_transpose', 'th_reshape', 'th_flatten', 'th_flip', 'th_invert', 'th_add', 'th_flip_transpose', 'th_invert_flip', 'th_invert_flip_transpose', 'th_flip_transpose_flip', 'th_sum', 'thd_transpose')]
HARNESSES.append(_h('thd_add', quick=[_c(2)], thorough=[_c(3), _c(4)]))   # 185 s / 4.1 GB at MAXE=3
HARNESSES.append(dict(name='launch_size', src='harnesses/C13.c', func='h_launch_size', kernels=['C13_thread'], unwind=4,
    bounds='TRANSCRIBED launch-size expression; output size 1..2^31-1 symbolic (pending finding: sizes > 2^24 excluded); work-group size LOCAL a per-query constant (32 = CUDA/HIP/SYCL warp size; OpenCL device values enumerated; symbolic 1..1024: no verdict in 300 s)',
    # KF_C13_LAUNCH_SIZE_FLOAT: TEMPORARY exclusion of the pending finding below (see PENDING_FINDINGS)
    quick=[{'LOCAL': l, 'KF_C13_LAUNCH_SIZE_FLOAT': 1} for l in (32, 256)], thorough=[{'LOCAL': l, 'KF_C13_LAUNCH_SIZE_FLOAT': 1} for l in (1, 32, 64, 128, 256, 512, 1024)]))
PENDING_FINDINGS = [dict(id='C13-launch-size-float32', harness='launch_size', exclude_define='KF_C13_LAUNCH_SIZE_FLOAT', witness_inputs=['0x8f01601', '0x20'], witness_config={'LOCAL': 32},
    what='launch-size arithmetic size_t(std::ceil(float(n)/32))*32 (sycl/context.hpp:466-467, opencl/context.hpp:478; same expression in cuda/hip where it counts BLOCKS and is harmless) '
         'rounds n through float: for n = 149952001 (any n > 2^24 that float rounds down) it yields 149952000 < n work items, so the SYCL nd_range / OpenCL global size does not cover the last '
         'output elements and they are never written. Decided on a TRANSCRIPTION of the expression (the headers need the device runtimes); replays natively.')]
OUTSIDE = [
 'real devices and the CUDA/HIP/SYCL/OpenCL runtimes: the host-side contexts (buffer allocation, copies, kernel launch) cannot be compiled here',
 'the launch-size computation inside cuda/hip/sycl/opencl context_t::run_ is not compiled (needs the device runtime); harness launch_size decides a TRANSCRIPTION of the one-line expression only',
 'OpenCL C kernel-helper variant (eval/opencl/kernel_helper.hpp, needs the OpenCL C++ dialect)',
 'multi-operand broadcast compositions, e.g. (a+b)*a: no verdict in the feasibility study (900 s, DESIGN.md section 6 C13); binary ufunc of two same-shape leaves IS covered (th_add, thd_add)',
 'operand dims other than 2 (output dims 1 and 2 are covered), extents > 4, element types other than unsigned 32-bit',
 'views with multiplication (square, multiply): equality of two multiplier circuits does not return in 300 s; invert/add/sum are used instead',
 'schedules are covered by the one-step induction argument stated in the claim, not by enumerating interleavings',
]
ASSUMPTIONS = [
 'harness launch_size (and its pending finding C13-launch-size-float32) is decided on a TRANSCRIPTION of the one-line launch-size expression of the sycl/opencl/cuda/hip contexts, not on the compiled headers (they need the device runtimes)',
 'run_body in kernels/C13_thread.cpp is a line-by-line transcription of the body of nm_cuda_run_function (include/nmtools/array/eval/cuda/context.hpp:10-31; nm_hip_run_function is the same text) with threadIdx.x / blockIdx.x / blockDim.x replaced by parameters, because the header needs the CUDA runtime; everything it calls is the unmodified nmtools code',
 'cuda_create_array (thd_* harnesses) transcribes the shape-copy part of cuda::context_t::create_array (cuda/context.hpp:161-200); the device buffer is the host buffer (cudaMalloc/cudaMemcpy are taken to copy faithfully)',
 'th_* harnesses rebuild operands with create_array<2>(pointer, shape, dim) as the SYCL path does (sycl/context.hpp:100-103)',
 'host value = NumPy element of the view at flat position g (reference model in harnesses/C13.c); that host evaluation returns exactly this is the subject of C03/C06/C08/C10',
 'threads do not race on a cell: distinct global ids write distinct cells (shown: thread g writes only cell g), so any interleaving of whole-thread steps gives the same final state',
]
CLAIM = dict(
 text='For every listed view (transpose, reshape, flatten, flip, unary ufunc, binary ufunc of two same-shape leaves, sum over an axis, and the depth-2/3 chains '
      'flip(transpose), invert(flip), invert(flip(transpose)), and the non-commuting flip(transpose(flip))) the solver shows for the complete per-thread step - host-side get_function_composition + get_function_operands, '
      'device-side operand reconstruction from raw (pointer, shape, dim), fn::apply, create_mutable_array and assign_result - with operand shape, data, view arguments, '
      'the prior content of the whole output buffer, thread id, block id (0..32) and block size (1..33) ALL symbolic: the thread with global id g = block*block_size+thread '
      'writes the host value into out[g] iff g < size(out) and changes no other cell. Since the written value depends neither on the output buffer nor on other threads, '
      'induction over the sequence of thread executions gives: any order, any interleaving, duplicated execution and any over-provisioned 1-d launch whose thread count is at least '
      'the output size leave the output equal to host evaluation. Also shown for the write side alone and for the CUDA operand kind (device_array with bounded shape).',
 note='Bounded: 2-d operands, extents 1..3 (quick) / 1..4 (thorough), output buffer of 16 cells, block id <= 32, block size 1..33 (covers the actual CUDA/HIP grid of ceil(size/32)*32 blocks for size <= 16). '
      'The kernel entry body is transcribed (see assumptions). Trusted: clang-14 -O1 lowering, engine/ll2c.py, CBMC; validated per run by gate and witness assertions.')
