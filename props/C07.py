KERNELS = {'C07_wiring': dict(src='kernels/C07_wiring.cpp', flags=['-DNDEBUG']),
           'C07_leaf_int': dict(src='kernels/C07_leaf_int.cpp', flags=['-DNDEBUG'])}
def _c(e, **kw):
    c = {'MAXE': e, '_unwindset': ['in_data.0:%d' % (e**3 + 2), 'k_fill_u32.0:%d' % (e**3 + 2)]}; c.update(kw); return c
def _w(name, unwind=8, quick=None, thorough=None, **kw):
    return dict(name=name, src='harnesses/C07.c', func='h_' + name, kernels=['C07_wiring'], unwind=unwind,
                quick=quick or [_c(3)], thorough=thorough or [_c(4)], **kw)
HARNESSES = [
 _w('negative3', bounds=''), _w('invert3', bounds=''),
 _w('sub_21', bounds=''), _w('sub_12', bounds=''), _w('sub_22', bounds=''),
 _w('sub_2s', bounds=''), _w('sub_s2', bounds=''), _w('sub_ss', bounds=''),
 _w('where_21s', bounds=''), _w('where_122', bounds=''), _w('clip_sss', bounds=''),
 _w('outer_sub_21', bounds=''), _w('outer_sub_12', bounds=''),
]
def _li(name, **kw):
    return dict(name='li_' + name, src='harnesses/C07_leaf.c', func='h_li_' + name, kernels=['C07_leaf_int'], unwind=4, quick=[{'LEAF_INT': 1}], thorough=[{'LEAF_INT': 1}], bounds='', **kw)
HARNESSES += [_li('unary'), _li('addsub'), _li('mul', backend='z3'), _li('divmod', backend='z3'), _li('bitwise'), _li('shift'), _li('cmp'), _li('logical'), _li('minmax')]
OUTSIDE = []
ASSUMPTIONS = []
CLAIM = dict(text='', note='')
