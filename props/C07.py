KERNELS = {'C07_wiring': dict(src='kernels/C07_wiring.cpp', flags=['-DNDEBUG']),
           'C07_leaf_int': dict(src='kernels/C07_leaf_int.cpp', flags=['-DNDEBUG']),
           'C07_leaf_flt': dict(src='kernels/C07_leaf_flt.cpp', flags=['-DNDEBUG', '-fno-builtin-exp2', '-fno-builtin-exp2f']),
           'C07_types': dict(src='kernels/C07_types.cpp', flags=['-DNDEBUG']),
           'C07_leaf_act': dict(src='kernels/C07_leaf_act.cpp', flags=['-DNDEBUG'])}
def _c(e, **kw):
    c = {'MAXE': e, '_unwindset': ['in_data.0:%d' % (e**3 + 2), 'k_fill_u32.0:%d' % (e**3 + 2)]}; c.update(kw); return c
def _w(name, unwind=8, quick=None, thorough=None, **kw):
    return dict(name=name, src='harnesses/C07.c', func='h_' + name, kernels=['C07_wiring'], unwind=unwind,
                quick=quick or [_c(3)], thorough=thorough or [_c(4)], **kw)
HARNESSES = [
 _w('negative3', bounds=''), _w('invert3', bounds=''),
 _w('sub_21', bounds=''), _w('sub_12', bounds=''), _w('sub_22', bounds=''),
 _w('sub_2s', bounds=''), _w('sub_s2', bounds=''), _w('sub_ss', bounds=''),
 _w('where_21s', bounds=''), _w('where_122', bounds=''), _w('where_mixed', bounds=''), _w('clip_sss', bounds=''),
 _w('outer_sub_21', bounds=''), _w('outer_sub_12', bounds=''),
]
def _li(name, **kw):
    return dict(name='li_' + name, src='harnesses/C07_leaf.c', func='h_li_' + name, kernels=['C07_leaf_int'], unwind=4, quick=[{'LEAF_INT': 1}], thorough=[{'LEAF_INT': 1}], bounds='', **kw)
HARNESSES += [_li('unary'), _li('addsub'), _li('mul', backend='z3'), _li('divmod', backend='z3'), _li('bitwise'), _li('shift'), _li('cmp'), _li('logical'), _li('minmax')]
def _lf(name, quick=None, thorough=None, **kw):
    q = [dict(c, LEAF_FLT=1) for c in (quick or [{}])]; t = [dict(c, LEAF_FLT=1) for c in (thorough or quick or [{}])]
    return dict(name='lf_' + name, src='harnesses/C07_leaf.c', func='h_lf_' + name, kernels=['C07_leaf_flt'], unwind=4, quick=q, thorough=t, bounds='', backend='kissat', **kw)
UF = {'LL_UF_FLOAT': 1}
def _pair(t, u, **kw): return dict({'ONLY_T': t, 'ONLY_U': u}, **kw)
F32, F64, I32, U32, I64 = 6, 7, 2, 3, 4
FPAIRS = [(F32, F32), (F64, F64), (I32, F32), (F32, I32), (F32, F64), (I64, F32), (U32, F64)]
HARNESSES += [
 _lf('arith1'), _lf('sqrec', quick=[UF]), _lf('sqrec_a', quick=[UF]),
 _lf('addsub', quick=[UF, _pair(F32, F32)], thorough=[_pair(t, u) for t, u in FPAIRS]),
 _lf('mul', quick=[UF], thorough=[_pair(F32, F32), _pair(I32, F32), _pair(F64, F64, _timeout=1800)], optional=True),
 _lf('div', quick=[UF], thorough=[_pair(F32, F32), _pair(F64, F64, _timeout=1800)], optional=True),
 _lf('arith_as', quick=[UF]),
 _lf('round'), _lf('pred'), _lf('cmp'), _lf('logical'), _lf('minmax'), _lf('fminmax'), _lf('fmod'), _lf('trans1'), _lf('trans2'),
]
def _la(name, **kw):
    return dict(name='la_' + name, src='harnesses/C07_leaf.c', func='h_la_' + name, kernels=['C07_leaf_act'], unwind=4, quick=[{'LEAF_ACT': 1}], thorough=[{'LEAF_ACT': 1}], bounds='', backend='kissat', **kw)
HARNESSES += [_la(n) for n in ('relu', 'clamp', 'slope', 'rational', 'exp1', 'exp2', 'exp3')]
HARNESSES += [dict(name='ty_' + n, src='harnesses/C07_types.c', func='h_ty_' + n, kernels=['C07_types'], unwind=2, quick=[{}], thorough=[{}], bounds='')
              for n in ('add', 'multiply', 'divide', 'maximum', 'less', 'logical_and', 'bitwise_and', 'left_shift', 'outer_dtype')]
OUTSIDE = []
ASSUMPTIONS = []
CLAIM = dict(text='', note='')
