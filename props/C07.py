KERNELS = {'C07_wiring': dict(src='kernels/C07_wiring.cpp', flags=['-DNDEBUG']),
           'C07_leaf_int': dict(src='kernels/C07_leaf_int.cpp', flags=['-DNDEBUG']),
           # exp2(int) would otherwise be rewritten by clang into ldexp(1.0, n): keep the library call the source makes
           'C07_leaf_flt': dict(src='kernels/C07_leaf_flt.cpp', flags=['-DNDEBUG', '-fno-builtin-exp2', '-fno-builtin-exp2f']),
           'C07_leaf_act': dict(src='kernels/C07_leaf_act.cpp', flags=['-DNDEBUG']),
           'C07_types': dict(src='kernels/C07_types.cpp', flags=['-DNDEBUG']),
           # the "dtype" family: one source built per part so that a query only parses the kernels it calls
           'C07_dtype_outer': dict(src='kernels/C07_dtype.cpp', flags=['-DNDEBUG', '-DDT_PART=1']), 'C07_dtype_bin': dict(src='kernels/C07_dtype.cpp', flags=['-DNDEBUG', '-DDT_PART=2']),
           'C07_dtype_cmp': dict(src='kernels/C07_dtype.cpp', flags=['-DNDEBUG', '-DDT_PART=3']), 'C07_dtype_mix': dict(src='kernels/C07_dtype.cpp', flags=['-DNDEBUG', '-DDT_PART=4']),
           'C07_dtype_gen': dict(src='kernels/C07_dtype.cpp', flags=['-DNDEBUG', '-DDT_PART=5'])}

# ---------------------------------------------------------------- (a) wiring per arity
def _c(e, **kw):
    c = {'MAXE': e, '_unwindset': ['in_data.0:%d' % (e**3 + 2), 'k_fill_u32.0:%d' % (e**3 + 2)]}; c.update(kw); return c
def _w(name, bounds, unwind=8, quick=None, thorough=None, **kw):
    return dict(name=name, src='harnesses/C07.c', func='h_' + name, kernels=['C07_wiring'], unwind=unwind, bounds=bounds,
                quick=quick or [_c(3)], thorough=thorough or [_c(4)], **kw)
SYM = 'every extent 1..MAXE, all element data (unsigned, 32 bit) and the result index are symbolic'
HARNESSES = [
 _w('negative3', 'unary view::negative on a hybrid 3-d array; ' + SYM), _w('invert3', 'unary view::invert on a hybrid 3-d array; ' + SYM),
 _w('sub_21', 'view::subtract(2-d, 1-d) hybrid operands incl. non-broadcastable pairs (-> Nothing); ' + SYM),
 _w('sub_12', 'view::subtract(1-d, 2-d): rank extension of the LEFT operand; ' + SYM),
 _w('sub_22', 'view::subtract(2-d, 2-d): size-1 axes stretched on either side; ' + SYM),
 _w('sub_32', 'view::subtract(3-d, 2-d); ' + SYM + ' (quick: extents 1..2, thorough 1..3)', quick=[_c(2)], thorough=[_c(3, _timeout=3600)]),
 _w('sub_t21', 'view::subtract(view::transpose(2-d), 1-d): a VIEW as operand; ' + SYM), _w('neg_t2', 'view::negative(view::transpose(2-d)); ' + SYM),
 _w('sub_u8_21', 'view::subtract(uint8 2-d, unsigned 1-d): mixed element types under broadcasting, result unsigned; ' + SYM,
    quick=[dict(_c(3), _unwindset=_c(3)['_unwindset'] + ['h_sub_u8_21.0:11', 'k_fill_u8.0:11'])], thorough=[dict(_c(4), _unwindset=_c(4)['_unwindset'] + ['h_sub_u8_21.0:18', 'k_fill_u8.0:18'])]),
 _w('sub_2s', 'view::subtract(2-d, scalar); ' + SYM + ', scalar symbolic'), _w('sub_s2', 'view::subtract(scalar, 2-d); ' + SYM + ', scalar symbolic'),
 _w('sub_ss', 'view::subtract(scalar, scalar) = scalar_ufunc_t, both symbolic'),
 _w('where_21s', 'view::where(condition 2-d, x 1-d, y scalar); ' + SYM), _w('where_122', 'view::where(condition 1-d, x 2-d, y 2-d); ' + SYM),
 _w('where_mixed', 'view::where(condition unsigned[n], x int[n], y long scalar), n 1..MAXE, data/scalar/index symbolic; element type long',
    quick=[_c(3, KF_C07_WHERE_SCALAR=1)], thorough=[_c(4, KF_C07_WHERE_SCALAR=1)]),
 _w('where_mixed_xy', 'view::where(condition unsigned[n], x int[n], y long[n]): three ARRAY operands, n 1..MAXE, all data/index symbolic; declared element type 8 bytes, value c ? (long)x : y', quick=[_c(3)], thorough=[_c(4)]),
 _w('where_mixed_yx', 'view::where(condition unsigned[n], x long[n], y int[n]): mirrored', quick=[_c(3)], thorough=[_c(4)]),
 _w('clip_sss', 'clip_t functor through view::ufunc on three symbolic scalars (the only instantiable form, see OUTSIDE)'),
 _w('outer_sub_21', 'view::outer_subtract(2-d, 1-d); ' + SYM), _w('outer_sub_12', 'view::outer_subtract(1-d, 2-d); ' + SYM),
]

# ---------------------------------------------------------------- (b) per-op leaf checks
I8, I32, U32, I64, U64, F32, F64 = 1, 2, 3, 4, 5, 6, 7
IPAIRS = [(I8, I8), (I32, I32), (U32, U32), (I64, I64), (U64, U64), (I8, I32), (I32, I8), (I32, U32), (U32, I32), (U32, I64), (I32, I64), (I8, U32), (I64, U64)]
FPAIRS = [(F32, F32), (F64, F64), (I32, F32), (F32, I32), (F32, F64), (I64, F32), (U32, F64)]
def _pair(t, u, **kw): return dict({'ONLY_T': t, 'ONLY_U': u}, **kw)
UF = {'LL_UF_FLOAT': 1}
IB = ('one symbolic 64-bit pattern per operand, reinterpreted in each dtype: int8, int32, uint32, int64, uint64 and the mixed pairs (i8,i32) (i32,i8) (i32,u32) (u32,i32) '
      '(u32,i64) (i32,i64) (i8,u32) (i64,u64); left operand a one-element array, right operand a scalar; whole dtype range except where the C++ expression is undefined: ')
def _li(name, bounds, quick=None, **kw):
    q = [dict(c, LEAF_INT=1) for c in (quick or [{}])]
    return dict(name='li_' + name, src='harnesses/C07_leaf.c', func='h_li_' + name, kernels=['C07_leaf_int'], unwind=4, quick=q, thorough=q, bounds=IB + bounds, **kw)
KFM = {'KF_C07_MINMAX_SCALAR': 1}
HARNESSES += [
 _li('unary', 'negative excludes the most negative value of a signed promoted type; positive, invert, logical_not unrestricted'),
 _li('addsub', 'signed results must not overflow (exact 128-bit guard); unsigned wrap-around included'),
 _li('mul', 'unsigned results: full range; SIGNED results: |x|,|y| < 2^7 (larger magnitudes give no verdict: 32x32 signed multiply with overflow obligation > 100 s); one query per dtype pair, z3',
     quick=[_pair(t, u, MULBITS=7) for t, u in IPAIRS], backend='z3'),
 _li('square', 'unsigned: full range; signed: |x| < 2^7', quick=[{'MULBITS': 7}], backend='z3'),
 _li('divmod', 'divide, mod, reciprocal: divisor != 0 and not (most negative / -1)', backend='z3'),
 _li('bitwise', 'bitwise_and / or / xor: unrestricted'),
 _li('shift', 'left_shift / right_shift: 0 <= shift < width of the promoted left type; signed left shift only of non-negative values whose result fits'),
 _li('cmp', 'equal .. greater_equal: unrestricted (mixed signedness follows C: -1 < 1u is false)'),
 _li('logical', 'logical_and / or / xor: unrestricted'),
 _li('minmax', 'maximum / minimum with a scalar right operand; region of the pending finding excluded', quick=[KFM]),
 _li('minmax_aa', 'maximum / minimum with both operands one-element arrays: unrestricted'),
]
FB = ('one symbolic 64-bit pattern per operand reinterpreted as float / double (all values incl. NaN, infinities, signed zeros, subnormals) or int; dtypes float, double and the mixed pairs '
      '(i32,f32) (f32,i32) (f32,f64) (i64,f32) (u32,f64); results compared bit for bit (NaN == NaN), widened exactly to double; ')
def _lf(name, bounds, quick=None, thorough=None, **kw):
    q = [dict(c, LEAF_FLT=1) for c in (quick or [{}])]; t = [dict(c, LEAF_FLT=1) for c in (thorough or quick or [{}])]
    return dict(name='lf_' + name, src='harnesses/C07_leaf.c', func='h_lf_' + name, kernels=['C07_leaf_flt'], unwind=4, quick=q, thorough=t, bounds=FB + bounds, backend='kissat', **kw)
UFT = 'LL_UF_FLOAT=1: IEEE + - * / are uninterpreted symbols shared by kernel and reference (decides operation, precision, operands and their order; exact rounding not modelled); '
HARNESSES += [
 _lf('arith1', 'negative, positive, logical_not: exact'),
 _lf('sqrec', UFT + 'square, reciprocal on a scalar operand', quick=[UF]), _lf('sqrec_a', UFT + 'square, reciprocal on a one-element array', quick=[UF]),
 _lf('addsub', UFT + 'plus one bit-exact IEEE query for (f32,f32) in quick and one per dtype pair in thorough; scalar operands (scalar_ufunc_t)',
     quick=[UF, _pair(F32, F32)], thorough=[UF] + [_pair(t, u) for t, u in FPAIRS]),
 _lf('mul', UFT + 'thorough adds bit-exact IEEE queries for (f32,f32), (i32,f32) and, optional, (f64,f64)', quick=[UF],
     thorough=[UF, _pair(F32, F32), _pair(I32, F32), _pair(F64, F64, _timeout=1800)], optional=True),
 _lf('div', UFT + 'thorough adds bit-exact IEEE queries for (f32,f32) and, optional, (f64,f64)', quick=[UF], thorough=[UF, _pair(F32, F32), _pair(F64, F64, _timeout=1800)], optional=True),
 _lf('arith_as', UFT + 'add, subtract, multiply, divide with (one-element array, scalar) operands', quick=[UF]),
 _lf('round', 'fabs, ceil, floor, trunc, rint on float, double, int: exact (CBMC library models)'),
 _lf('pred', 'isnan, isinf, isfinite, signbit on float, double, int: exact'),
 _lf('cmp', 'equal .. greater_equal: exact IEEE comparisons'), _lf('logical', 'logical_and / or / xor on floats: exact'),
 _lf('minmax', 'maximum / minimum (t > u ? t : u, C semantics for NaN) with a scalar right operand (pending finding region excluded) and with two arrays (unrestricted)', quick=[KFM]),
 _lf('fminmax', 'fmax / fmin: exact (C semantics for NaN), precision selected as <cmath> does'),
 _lf('fmod', 'fmod: uninterpreted (CBMC exact model: no verdict in 300 s): right function, precision, operands'),
 _lf('trans1', 'sqrt cbrt exp exp2 expm1 log log2 log10 log1p sin cos tan sinh cosh tanh arcsin arccos arctan arcsinh arccosh arctanh on float, double, int: UNINTERPRETED, i.e. only right function / precision / argument'),
 _lf('trans2', 'power, arctan2, hypot (7 dtype pairs), ldexp (f32,i32) (f64,i32): UNINTERPRETED, i.e. only right function / precision / arguments in order'),
]
AB = 'float and double one-element arrays, operand (all values incl. NaN/inf) and parameters symbolic; compared bit for bit (NaN == NaN) with the documented formula in comparison form; '
def _la(name, bounds, quick=None, **kw):
    q = [dict(c, LEAF_ACT=1) for c in (quick or [{}])]
    return dict(name='la_' + name, src='harnesses/C07_leaf.c', func='h_la_' + name, kernels=['C07_leaf_act'], unwind=4, quick=q, thorough=q, bounds=AB + bounds, backend='kissat', **kw)
HARNESSES += [
 _la('relu', 'relu, relu6 on float, double, int: exact'),
 _la('clamp', 'hardtanh (min <= max), hardshrink / softshrink (lambda >= 0), incl. the default parameters: exact IEEE'),
 _la('slope', UFT + 'leaky_relu, prelu with a symbolic slope', quick=[UF]), _la('slope_def', 'leaky_relu / prelu with default slopes on float: exact IEEE'),
 _la('rational', UFT + 'hardswish, softsign', quick=[UF]),
 _la('exp1', UFT + 'elu, celu, selu (+ defaults); exp uninterpreted', quick=[UF]), _la('exp2', UFT + 'sigmoid, silu, log_sigmoid, tanhshrink; exp/log/tanh uninterpreted', quick=[UF]),
 _la('exp3', UFT + 'softplus(beta, threshold), mish; exp/log/tanh uninterpreted', quick=[UF]),
]

# ---------------------------------------------------------------- (c) result element type (type level)
HARNESSES += [dict(name='ty_' + n, src='harnesses/C07_types.c', func='h_ty_' + n, kernels=['C07_types'], unwind=2,
                   quick=[KFM] if n == 'maximum' else [{}], thorough=[KFM] if n == 'maximum' else [{}],
                   bounds='TYPE LEVEL (no symbolic variable): declared element type and type returned by operator() of view::%s for every pair of '
                          '{int8,uint8,int32,uint32,int64%s}, array (op) array and array (op) scalar, against C\'s usual arithmetic conversions' % (n, '' if n in ('bitwise_and', 'left_shift') else ',float,double'))
              for n in ('add', 'multiply', 'divide', 'maximum', 'less', 'logical_and', 'bitwise_and', 'left_shift')]
HARNESSES += [dict(name='ty_outer_dtype', src='harnesses/C07_types.c', func='h_ty_outer_dtype', kernels=['C07_types'], unwind=2, quick=[{}], thorough=[{}],
                   bounds='TYPE LEVEL: element type of outer_subtract(int8, int32) without and with an explicit dtype (float32, int64, uint8)')]

# ---------------------------------------------------------------- (d) "dtype" family: element type / requested dtype, value in that type (lists mirror harnesses/C07_dtype.def)
def _dc(part, e=3, **kw):
    n = e * e + 2
    c = {'MAXE': e, 'PART_' + part.upper(): 1, '_unwindset': ['re:^k_fill_:%d' % n, 're:^h_dtype_:%d' % n, 'bcast2.0:5', 'bsrc.0:5']}
    c.update(kw); return c
def _d(part, name, bounds, quick=None, thorough=None, **kw):
    # nmtools loops here run over dims (<= 2) and index packs (<= 2): global unwind 4 for the broadcast families (unwinding assertions stay on), 8 elsewhere
    return dict(name='dtype_' + name, src='harnesses/C07_dtype.c', func='h_dtype_' + name, kernels=['C07_dtype_' + part], unwind=kw.pop('unwind', 4 if part in ('bin', 'cmp', 'mix') else 8), bounds=bounds,
                quick=[_dc(part, 3)] if quick is None else quick, thorough=[_dc(part, 4)] if thorough is None else thorough, **kw)
UFQ = {'LL_UF_FLOAT': 1}
DTN = ['none', 'int8', 'uint8', 'int16', 'int32', 'uint32', 'int64', 'float32', 'float64']
def _per_dt(part, e): return [_dc(part, e, ONLY_DT=k) for k in range(len(DTN))]
# broadcast families: operand shapes are per-query constants (a (SA0,SA1) or (SA1,), b (SB0,)); quick (2,3)x(3,), thorough adds (3,4)x(4,) and the doubly stretched (3,1)x(4,)
BQ = dict(SA0=2, SA1=3, SB0=3)
BT = [dict(SA0=2, SA1=3, SB0=3), dict(SA0=3, SA1=4, SB0=4), dict(SA0=3, SA1=1, SB0=4), dict(SA0=2, SA1=3, SB0=1)]
def _bq(part, **kw): return [_dc(part, 3, **dict(BQ, **kw))]
def _bt(part, **kw): return [_dc(part, 4, **dict(b, **kw)) for b in BT]
BSYM = 'operand shapes per-query constants (quick (2,3)x(3,); thorough adds (3,4)x(4,), (3,1)x(4,), (2,3)x(1,); 1-d left operands use the second extent), every element (whole range of its type unless stated) and the result index symbolic; '
DSYM = 'operand lengths / extents 1..MAXE, every element (whole range of its type) and the result index symbolic; '
DTS = 'dtype in {none, int8, uint8, int16, int32, uint32, int64, float32, float64} (one query per dtype)'
HARNESSES += [_d('outer', 'outer_%s_%s_%s' % g, 'view::outer_%s(%s[n], %s[m], dtype) for every %s: declared element type, type returned by operator(), element (i,j) == (dtype)(a[i] op b[j]); ' % (g + (DTS,)) + DSYM,
                 quick=_per_dt('outer', 3), thorough=_per_dt('outer', 4), **(dict(backend='kissat') if g[0] == 'multiply' else {}))
              for g in [('add', 'u8', 'i8'), ('add', 'i16', 'u8'), ('subtract', 'u8', 'u8'), ('subtract', 'i8', 'i16'), ('multiply', 'i8', 'u8')]]
TN = dict(i8='int8', u8='uint8', i16='int16', i32='int', u32='unsigned', i64='long', f32='float', f64='double', none='none')
HARNESSES += [_d('outer', 'outer_%s_%s_%s' % g, 'view::outer_%s(%s[n], %s[m], dtype) for dtype in {none, uint8, int64, float32} (one query per dtype): the C result type of a shift is the promoted LEFT type only; element == (dtype)(a[i] op b[j]); '
                 'shift counts 0 <= s < width of the promoted left type, left shifts only of non-negative values whose result fits; ' % g + DSYM,
                 quick=[_dc('outer', 3, ONLY_DT=k) for k in (0, 2, 6, 7)], thorough=[_dc('outer', 4, ONLY_DT=k) for k in (0, 2, 6, 7)])
              for g in [('left_shift', 'u8', 'i64'), ('right_shift', 'i64', 'u8')]]
HARNESSES += [
 _d('outer', 'outer_wide', 'view::outer_add / outer_subtract(unsigned[n], unsigned[m], dtype=int64) and outer_add(..., dtype=float64): element type == dtype; element == (dtype)a[i] op (dtype)b[j] as NumPy combines IN the requested dtype; '
    'region of the pending finding (the 32-bit operation wraps) excluded; ' + DSYM, quick=[_dc('outer', 3, KF_C07_DTYPE_WIDE=1)], thorough=[_dc('outer', 4, KF_C07_DTYPE_WIDE=1)]),
 _d('outer', 'outer_flt_a', 'view::outer_add(float[n], int16[m], dtype=float32): element type float, element == a[i] + (float)b[j], one IEEE addition (quick: LL_UF_FLOAT=1 - precision, operand conversion and order; thorough adds the bit-exact query, any NaN == any NaN); ' + DSYM, quick=[_dc('outer', 3, **UFQ)], thorough=[_dc('outer', 4, **UFQ), _dc('outer', 3, _timeout=1800)], backend='kissat'),
 _d('outer', 'outer_flt_b', 'view::outer_subtract(double[n], float[m], dtype=float64): element type double, element == a[i] - (double)b[j] (quick: LL_UF_FLOAT=1; thorough adds bit-exact); ' + DSYM, quick=[_dc('outer', 3, **UFQ)], thorough=[_dc('outer', 4, **UFQ), _dc('outer', 3, _timeout=1800)], backend='kissat'),
 _d('outer', 'outer_flt_c', 'view::outer_add(uint8[n], float[m], dtype=float64): element type double, element == (double)((float)a[i] + b[j]) (the nmtools form: combined in the operands\' common type, then converted; quick: LL_UF_FLOAT=1; thorough adds bit-exact); ' + DSYM, quick=[_dc('outer', 3, **UFQ)], thorough=[_dc('outer', 4, **UFQ), _dc('outer', 3, _timeout=1800)], backend='kissat'),
]
HARNESSES += [_d('bin', 'bin_%s_%s_%s' % g, 'view::broadcast_binary_ufunc(view::%s_t<none_t,none_t,T>{}, %s 2-d, %s 1-d) - the functor carrying a requested result type T, as reduce_/outer_/accumulate_<op> build it from a dtype - for every ' % g
                 + DTS + ' (quick tier: all nine for add, {none, uint8, int64, float32} for subtract / multiply)' + ': accepted iff broadcastable, broadcast shape, declared element type, type returned by operator(), element == (T)(a[bcast i] op b[bcast i]); ' + BSYM,
                 quick=[_dc('bin', 3, ONLY_DT=k, **BQ) for k in (range(len(DTN)) if g[0] == 'add' else (0, 2, 6, 7))], thorough=[_dc('bin', 4, ONLY_DT=k, **b) for k in range(len(DTN)) for b in BT], **(dict(backend='kissat') if g[0] == 'multiply' else {}))
              for g in [('add', 'u8', 'i8'), ('subtract', 'i16', 'u8'), ('multiply', 'i8', 'i8')]]
HARNESSES += [_d('bin', 'samekind_%s_%s' % g, 'view::%s(a 2-d, b 1-d, casting::SAME_KIND), both operands %s: element type stays the operands\' type (NumPy\'s result type for equal dtypes), element == (T)(a op b) i.e. modulo 2^bits (int operands: the sum must not overflow, undefined in C++); ' % (g[0], TN[g[1]]) + BSYM, quick=_bq('bin'), thorough=_bt('bin'), **(dict(backend='kissat') if g[0] == 'multiply' else {}))
              for g in [('add', 'u8'), ('subtract', 'i16'), ('multiply', 'i8'), ('add', 'i32'), ('subtract', 'u32')]]
HARNESSES += [_d('cmp', 'cmp_%s_%s' % g, 'view::less / less_equal / greater / greater_equal / equal / not_equal(%s[n], %s[m]) with 1-d broadcasting: element type bool, element == the C comparison under the usual arithmetic conversions '
                 '(int vs unsigned compares as unsigned: -1 < 1u is false; long vs unsigned compares as long; long vs float compares as float); ' % (TN[g[0]], TN[g[1]]) + BSYM, quick=_bq('cmp'), thorough=_bt('cmp'))
              for g in [('i32', 'u32'), ('u32', 'i32'), ('i8', 'u32'), ('i64', 'u32'), ('u8', 'i8'), ('i16', 'u32'), ('i16', 'f32')]]
HARNESSES += [_d('cmp', 'cmp_i64_f32', 'the six comparison views on (long[n], float[m]): thorough tier only (long -> float conversion on both sides: 490 s measured)', quick=[], thorough=_bq('cmp', _timeout=1800))]
HARNESSES += [_d('mix', 'mix_%s_%s_%s' % g, 'view::%s(%s 2-d, %s 1-d), no dtype: accepted iff broadcastable, element type == C result type of the two element types, element == a[bcast i] op b[bcast i] evaluated in that type%s; '
                 % (g[0], TN[g[1]], TN[g[2]], ' (one IEEE operation; quick: LL_UF_FLOAT=1, i.e. + / - uninterpreted and shared with the reference - decides precision, operand conversions and order; thorough adds the bit-exact IEEE query, any NaN == any NaN)' if 'f' in g[1] + g[2] else ' (signed 64-bit results must not overflow, shift counts within the promoted left type, left shifts of non-negative values that fit: undefined in C++ otherwise; multiply: operands wider than 8 bits hold |value| < 2^7)') + BSYM,
                 **(dict(quick=_bq('mix', **UFQ), thorough=_bt('mix', **UFQ) + _bq('mix', _timeout=1800), backend='kissat') if 'f' in g[1] + g[2] else dict(quick=_bq('mix'), thorough=_bt('mix'), **(dict(backend='kissat') if g[0] == 'multiply' else {}))))
              for g in [('add', 'u8', 'i64'), ('subtract', 'u8', 'i64'), ('multiply', 'u8', 'i8'), ('add', 'i16', 'u32'), ('subtract', 'u32', 'i64'), ('subtract', 'i8', 'u8'), ('multiply', 'i8', 'i64'),
                        ('bitwise_and', 'u8', 'i32'), ('bitwise_or', 'i16', 'u32'), ('bitwise_xor', 'i8', 'i64'), ('left_shift', 'u8', 'i64'), ('right_shift', 'i64', 'u8'), ('left_shift', 'i64', 'i8'),
                        ('add', 'f32', 'i32'), ('subtract', 'i64', 'f32'), ('add', 'i32', 'f64'), ('subtract', 'f32', 'f64'), ('add', 'u8', 'f32')]]
GSYM = 'shape (n, m) with n, m 1..MAXE and the result index symbolic; '
HARNESSES += [
 _d('gen', 'full', 'view::full(shape, value) for a fill value of each of the 8 element types: element type == the value\'s type, element == value (all values, NaN compared as NaN); ' + GSYM),
 _d('gen', 'zeros_ones', 'view::zeros / view::ones(shape, dtype) for the 8 dtypes: element type == dtype, element == 0 / 1; ' + GSYM),
 _d('gen', 'eye', 'view::eye(n, m, k, dtype) for the 8 dtypes (one query per dtype), n, m 1..MAXE, k in [-MAXE, MAXE], index symbolic: element type == dtype, element (i,j) == (j == i + k)',
    quick=[_dc('gen', 3, ONLY_DT=k) for k in range(1, 9)], thorough=[_dc('gen', 4, ONLY_DT=k) for k in range(1, 9)]),
 _d('gen', 'identity', 'view::identity(n, dtype) for the 8 dtypes (one query per dtype)', quick=[_dc('gen', 3, ONLY_DT=k) for k in range(1, 9)], thorough=[_dc('gen', 4, ONLY_DT=k) for k in range(1, 9)]),
 _d('gen', 'arange_int', 'view::arange(start, stop, step, dtype) for dtype in {int8, uint8, int16, int32, uint32, int64} (one query per dtype): int start, stop in [-RNG, RNG], step in [-MAXSTEP, MAXSTEP] minus 0, non-empty grids of at most MAXLEN '
    'elements (empty and > 2^24 grids are C04 findings), element index symbolic: length, declared element type == dtype, element i == (dtype)(start + i*step) (NumPy computes the elements in the dtype: modulo 2^bits)',
    quick=[_dc('gen', 3, ONLY_DT=k, RNG=1000, MAXSTEP=3, MAXLEN=16, KF_C04_ARANGE_RETTYPE=1) for k in range(1, 7)], thorough=[_dc('gen', 3, ONLY_DT=k, RNG=100000, MAXSTEP=7, MAXLEN=64, KF_C04_ARANGE_RETTYPE=1) for k in range(1, 7)], finding_pid='C04'),
 _d('gen', 'arange_flt', 'view::arange(start, stop, step, float32 / float64) and arange(start, stop, step) (default dtype float32) on the same integer grids: element type, element i == start + i*step (exact in float here)',
    quick=[_dc('gen', 3, RNG=1000, MAXSTEP=3, MAXLEN=16, KF_C04_ARANGE_FLOAT_NEGSTEP=1)], thorough=[_dc('gen', 3, RNG=100000, MAXSTEP=7, MAXLEN=64, KF_C04_ARANGE_FLOAT_NEGSTEP=1)], finding_pid='C04'),
]
HARNESSES += [_d('gen', 'full_like_%s_%s_%s' % g, 'view::full_like(%s 2-d prototype, %s fill value, dtype=%s): shape of the prototype, element type == dtype (none: the prototype\'s), element == the fill value converted to it '
                 '(all fill values; integer narrowing modulo 2^bits, integer -> floating rounds to nearest); ' % (TN[g[0]], TN[g[1]], TN[g[2]]) + GSYM + 'prototype data symbolic')
              for g in [('i16', 'i64', 'none'), ('f32', 'i32', 'none'), ('i64', 'u8', 'none'), ('i8', 'u32', 'none'), ('u8', 'i32', 'f64'), ('i16', 'u8', 'i64'), ('f32', 'i64', 'i16'), ('u32', 'i8', 'none'), ('f64', 'i64', 'u8')]]
HARNESSES += [_d('gen', 'zeros_ones_like_%s_%s' % g, 'view::zeros_like / ones_like(%s 2-d prototype, dtype=%s): shape of the prototype, element type == dtype (none: the prototype\'s), element 0 / 1; ' % (TN[g[0]], TN[g[1]]) + GSYM)
              for g in [('u8', 'none'), ('i16', 'none'), ('f32', 'none'), ('i64', 'none'), ('f64', 'none'), ('u8', 'f64'), ('f32', 'i8'), ('i16', 'u32'), ('i64', 'f32')]]
HARNESSES += [_d('gen', 'like_default', 'full_like(int16 a, long v), zeros_like(int16 a), ones_like(float a) with the dtype parameter defaulted: the prototype\'s element type, converted value; ' + GSYM)]

PENDING_FINDINGS = [
 dict(id='C07-maximum-minimum-scalar-operand', harness='li_minmax', exclude_define='KF_C07_MINMAX_SCALAR', witness_inputs=['0x400040400000009f', '0x7fffff9f'],
      what='view::maximum / view::minimum with a SCALAR operand (either side) return the array operand\'s element type and convert the scalar to it: the scalar reaches '
           'maximum_t/minimum_t as a num-view object and `t > u ? t : u` converts the class operand to the other operand\'s type. '
           'view::maximum(int8[1]{-97}, int 2147483551)(0) == -97 (C / NumPy: 2147483551); maximum(int[1]{1}, 2.5)(0) == 2 although the view\'s declared element type is double. '
           'Array (op) array is correct (li_minmax_aa / lf_minmax).'),
 dict(id='C07-maximum-minimum-scalar-operand', harness='lf_minmax', exclude_define='KF_C07_MINMAX_SCALAR', witness_inputs=['0xffffffffffffffff', '0xbfffffffffffffff'],
      what='same defect on float dtypes: maximum(float[1], double scalar) / maximum(int[1], float scalar) truncate the scalar to the array element type'),
 dict(id='C07-maximum-minimum-scalar-operand', harness='ty_maximum', exclude_define='KF_C07_MINMAX_SCALAR', witness_inputs=[],
      what='type level: operator() of view::maximum(T[1], U scalar) returns T, the declared element type is the C common type'),
 dict(id='C07-where-scalar-operand', harness='where_mixed', exclude_define='KF_C07_WHERE_SCALAR',
      witness_inputs=['0x1', '0x0', '0x0', '0x0', '0x0', '0x0', '0x0', '0x2000000000000', '0x0', '0x2', '0x2', '0x0'], witness_config={'MAXE': 3},
      what='view::where(condition, x int[n], y long scalar): where_t::operator() evaluates `c ? x[i] : y` with y a num-view object, which converts y to int before the cast to the '
           'element type long: where([0],[0], 0x2000000000000)(0) == 0, NumPy: 562949953421312. Natively also where([0,1],[10,20],2.5) == [2.0, 20.0] (NumPy [2.5, 20.0]).'),
 # ---- "dtype" family (the exclusion macros are in the configurations in a temporary way; the runner takes them from known_findings.json only)
 dict(id='C07-dtype-applied-after-operation', harness='dtype_outer_wide', exclude_define='KF_C07_DTYPE_WIDE',
      witness_inputs=['0x1', '0x1', '0xffffffff', '0x0', '0x0', '0x1', '0x0', '0x0', '0x0', '0x0'], witness_config={'MAXE': 3, 'PART_OUTER': 1},
      what='an explicitly requested dtype is applied AFTER the operation, not to the operands: the functor op_t<none_t,none_t,res_t> built from the dtype (add.hpp / subtract.hpp / multiply.hpp ...: '
           '`operator()(t, u) -> res_t { return t + u; }`) evaluates t op u in the operands\' common type and converts the result. view::outer_add(unsigned[1]{4294967295}, unsigned[1]{1}, nm::int64)(0,0) == 0 '
           '(NumPy np.add.outer(a, b, dtype=np.int64): 4294967296), outer_subtract(unsigned{0}, unsigned{1}, int64) == 4294967295 (NumPy: -1), outer_add(..., float64) == 0.0 (NumPy 4294967296.0); the same functor '
           'serves reduce_/accumulate_<op> (there the accumulator already has the dtype, see C08). Region: a op b wraps (or overflows) in the operands\' common type although it is representable in the dtype. '
           'Solver witness: a = [9, 180237], b = [326830, 4294787073], element (1,1): 14 instead of 4294967310.'),
 dict(id='C04-arange-float-negative-step', property='C04', harness='dtype_arange_flt', exclude_define='KF_C04_ARANGE_FLOAT_NEGSTEP',
      witness_inputs=['0x5', '0x0', '0xffffffffffffffff', '0x1'], witness_config={'MAXE': 3, 'PART_GEN': 1, 'RNG': 1000, 'MAXSTEP': 3, 'MAXLEN': 16},
      what='view::arange with a floating dtype (float32 is the DEFAULT dtype) and a negative step: arange_t::operator() computes static_cast<T>(start) + (index * step) (arange.hpp) with an unsigned index, so '
           'index*step wraps to 2^64 - i*|step| before it is converted to float: view::arange(5, 0, -1) == [5, 1.8446744e19, 1.8446744e19, ...] (NumPy [5. 4. 3. 2. 1.]); array::eval of the view gives the same. '
           'Region: floating dtype and step < 0, elements i >= 1. (Integer dtypes are unaffected once the value is converted back to the dtype: modular arithmetic.)'),
 dict(id='C04-arange-element-not-in-dtype', property='C04', harness='dtype_arange_int', exclude_define='KF_C04_ARANGE_RETTYPE',
      witness_inputs=['0xfa', '0x104', '0x1', '0x6'], witness_config={'MAXE': 3, 'PART_GEN': 1, 'RNG': 1000, 'MAXSTEP': 3, 'MAXLEN': 16},
      what='view::arange(start, stop, step, dtype): the declared element type is the dtype but operator() returns static_cast<T>(start) + index*step in the common type of T, the index and the step '
           '(size_t for a size_t index), never converted back to T: arange(250, 260, 1, nm::uint8)(6) == 256 with element type uint8 (NumPy 1.x: 0; NumPy 2 raises); '
           'for int8/int16/int32/int64 the returned type is unsigned long. Under the macro the harness compares the element after conversion to the dtype (which is what array::eval stores) and drops the '
           'returned-type assertion (type level: every input).'),
]
OUTSIDE = [
 'view::clip(array, amin, amax) does not compile for hybrid or fixed-shape operands (view::where is handed a maybe-typed condition; the repo\'s clip tests are disabled in tests/*/CMakeLists.txt); '
 'the n-ary view::ufunc(op, a, b, c) fails its n_args static_assert for array operands: ternary wiring is therefore view::where, and clip_t only on scalars',
 'wiring with operand dims above 2 (binary) / 3 (unary), extents above 4, view-typed operands, dynamic (std::vector) buffers, compile-time shapes: container kinds are C09',
 'every (op x dtype pair) through broadcasting operands: wiring is op-independent code and proved once per arity; leaf checks use one-element operands',
 'numerical accuracy of transcendental functions (uninterpreted), bit-exact IEEE rounding of / (float: no verdict in 600 s with kissat; double: not attempted beyond 100 s toy queries) and of double * (44 s in isolation with z3, no verdict inside a kernel query); float *, float/double + - are decided bit-exactly in the thorough tier; fmod (uninterpreted)',
 'signed integer multiplication with |operand| >= 2^7 (no verdict: > 100 s per dtype pair), signed overflow / division by zero / out-of-range shifts (undefined in C++)',
 'relu(NaN) == 0 in nmtools (PyTorch propagates NaN); maximum/minimum follow `t > u ? t : u` for NaN (np.maximum propagates NaN): the reference here is the C expression',
 'dtype family: view::add / subtract / multiply take NO dtype argument (third parameter is a casting kind: AUTO / SAME_KIND, EQUIV unimplemented) - the requested result type is exercised through the functor '
 'op_t<none_t,none_t,T> with broadcast_binary_ufunc and through outer_<op>(a, b, dtype); bitwise_and/or/xor, comparisons and every unary ufunc have no dtype / result-type parameter at all; view::cast / astype does not exist; '
 'outer_fmax/fmin/fmod/power/maximum/minimum with dtype (same outer_t + functor pattern) not instantiated; float operands with a dtype other than their C result type (NumPy would compute in the dtype: different rounding, no single-operation reference); '
 'float multiply / divide; 32-bit signed operands with a wider dtype (the C operation overflows: undefined); uint16 / uint64 dtypes; eye/identity with the default dtype; linspace; reduce / accumulate with dtype (C08)',
 'deg2rad / degrees / rad2deg / radians (view::multiply with a constant), amax / amin (C08); int16/uint16 dtypes, long double, complex; array::<ufunc> (eager evaluation: C04/C10)',
]
ASSUMPTIONS = ['transcendental libm functions, fmod and (in LL_UF_FLOAT queries) IEEE + - * / are uninterpreted functions shared by the kernel and the reference',
               'reference for float arithmetic = the bare C++ operator compiled by the same clang pipeline (k_ref_f* kernels contain no nmtools code)']
CLAIM = dict(
 text='(a) For hybrid operands with symbolic shapes (dims 1-3, extents 1..3/4), data and result index the solver shows: unary views keep the shape and apply the op per element; '
      'view::subtract of 2-d/1-d/2-d operands and of a scalar on either side is accepted iff NumPy-broadcastable, has the broadcast shape and element a[bcast i] - b[bcast i] in operand order; '
      'view::where (three operands) likewise; outer_subtract has shape(a)+shape(b) and element a[i]-b[j]. '
      '(b) 27 integer functors x 13 dtype pairs and the float/double functors (arithmetic, comparison, logical, rounding, predicates, fmax/fmin, 9 piecewise activations) equal the C expression on all '
      'inputs of the stated domains; 27 transcendental functors and 9 exp-based activations call the right library function on the right arguments (uninterpreted). '
      '(c) The declared element type equals C\'s usual arithmetic conversions for the full 7x7 dtype matrix. Two defects found and excluded as pending findings (scalar operand of maximum/minimum/where). '
      '(d) dtype family, symbolic data and index: outer_add/subtract/multiply/shift and the result-type-carrying functors have the requested dtype as declared and returned element type and element (dtype)(a op b) for all 9 dtypes on 8/16-bit operands; '
      'SAME_KIND keeps the operand type; comparisons of mixed signed/unsigned/float arrays are bool with C\'s conversions; mixed-type binary views under broadcasting use the C common type; full/zeros/ones/eye/identity/arange/*_like have the requested '
      '(or prototype / fill value) element type and the converted value. Three defects found (dtype applied after the operation; arange with float dtype and negative step; arange elements not converted to the dtype).',
 note='Bounded as listed per harness. Trusted: clang-14 -O1 lowering, engine/ll2c.py, CBMC, z3/kissat; validated per run by the differential gate and witness assertions.')
