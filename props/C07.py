KERNELS = {'C07_wiring': dict(src='kernels/C07_wiring.cpp', flags=['-DNDEBUG']),
           'C07_leaf_int': dict(src='kernels/C07_leaf_int.cpp', flags=['-DNDEBUG']),
           # exp2(int) would otherwise be rewritten by clang into ldexp(1.0, n): keep the library call the source makes
           'C07_leaf_flt': dict(src='kernels/C07_leaf_flt.cpp', flags=['-DNDEBUG', '-fno-builtin-exp2', '-fno-builtin-exp2f']),
           'C07_leaf_act': dict(src='kernels/C07_leaf_act.cpp', flags=['-DNDEBUG']),
           'C07_types': dict(src='kernels/C07_types.cpp', flags=['-DNDEBUG'])}

# ---------------------------------------------------------------- (a) wiring per arity
def _c(e, **kw):
    c = {'MAXE': e, '_unwindset': ['in_data.0:%d' % (e**3 + 2), 'k_fill_u32.0:%d' % (e**3 + 2)]}; c.update(kw); return c
def _w(name, bounds, unwind=8, quick=None, thorough=None, **kw):
    return dict(name=name, src='harnesses/C07.c', func='h_' + name, kernels=['C07_wiring'], unwind=unwind, bounds=bounds,
                quick=quick or [_c(3)], thorough=thorough or [_c(4)], **kw)
SYM = 'every extent 1..MAXE, all element data (unsigned, 32 bit) and the result index are symbolic'
HARNESSES = [
 _w('negative3', 'unary view::negative on a hybrid 3-d array; ' + SYM), _w('invert3', 'unary view::invert on a hybrid 3-d array; ' + SYM),
 _w('sub_21', 'view::subtract(2-d, 1-d) hybrid operands incl. non-broadcastable pairs (-> Nothing); ' + SYM),
 _w('sub_12', 'view::subtract(1-d, 2-d): rank extension of the LEFT operand; ' + SYM),
 _w('sub_22', 'view::subtract(2-d, 2-d): size-1 axes stretched on either side; ' + SYM),
 _w('sub_32', 'view::subtract(3-d, 2-d); ' + SYM + ' (quick: extents 1..2, thorough 1..3)', quick=[_c(2)], thorough=[_c(3, _timeout=3600)]),
 _w('sub_t21', 'view::subtract(view::transpose(2-d), 1-d): a VIEW as operand; ' + SYM), _w('neg_t2', 'view::negative(view::transpose(2-d)); ' + SYM),
 _w('sub_u8_21', 'view::subtract(uint8 2-d, unsigned 1-d): mixed element types under broadcasting, result unsigned; ' + SYM,
    quick=[dict(_c(3), _unwindset=_c(3)['_unwindset'] + ['h_sub_u8_21.0:11', 'k_fill_u8.0:11'])], thorough=[dict(_c(4), _unwindset=_c(4)['_unwindset'] + ['h_sub_u8_21.0:18', 'k_fill_u8.0:18'])]),
 _w('sub_2s', 'view::subtract(2-d, scalar); ' + SYM + ', scalar symbolic'), _w('sub_s2', 'view::subtract(scalar, 2-d); ' + SYM + ', scalar symbolic'),
 _w('sub_ss', 'view::subtract(scalar, scalar) = scalar_ufunc_t, both symbolic'),
 _w('where_21s', 'view::where(condition 2-d, x 1-d, y scalar); ' + SYM), _w('where_122', 'view::where(condition 1-d, x 2-d, y 2-d); ' + SYM),
 _w('where_mixed', 'view::where(condition unsigned[n], x int[n], y long scalar), n 1..MAXE, data/scalar/index symbolic; element type long',
    quick=[_c(3, KF_C07_WHERE_SCALAR=1)], thorough=[_c(4, KF_C07_WHERE_SCALAR=1)]),
 _w('where_mixed_xy', 'view::where(condition unsigned[n], x int[n], y long[n]): three ARRAY operands, n 1..MAXE, all data/index symbolic; declared element type 8 bytes, value c ? (long)x : y', quick=[_c(3)], thorough=[_c(4)]),
 _w('where_mixed_yx', 'view::where(condition unsigned[n], x long[n], y int[n]): mirrored', quick=[_c(3)], thorough=[_c(4)]),
 _w('clip_sss', 'clip_t functor through view::ufunc on three symbolic scalars (the only instantiable form, see OUTSIDE)'),
 _w('outer_sub_21', 'view::outer_subtract(2-d, 1-d); ' + SYM), _w('outer_sub_12', 'view::outer_subtract(1-d, 2-d); ' + SYM),
]

# ---------------------------------------------------------------- (b) per-op leaf checks
I8, I32, U32, I64, U64, F32, F64 = 1, 2, 3, 4, 5, 6, 7
IPAIRS = [(I8, I8), (I32, I32), (U32, U32), (I64, I64), (U64, U64), (I8, I32), (I32, I8), (I32, U32), (U32, I32), (U32, I64), (I32, I64), (I8, U32), (I64, U64)]
FPAIRS = [(F32, F32), (F64, F64), (I32, F32), (F32, I32), (F32, F64), (I64, F32), (U32, F64)]
def _pair(t, u, **kw): return dict({'ONLY_T': t, 'ONLY_U': u}, **kw)
UF = {'LL_UF_FLOAT': 1}
IB = ('one symbolic 64-bit pattern per operand, reinterpreted in each dtype: int8, int32, uint32, int64, uint64 and the mixed pairs (i8,i32) (i32,i8) (i32,u32) (u32,i32) '
      '(u32,i64) (i32,i64) (i8,u32) (i64,u64); left operand a one-element array, right operand a scalar; whole dtype range except where the C++ expression is undefined: ')
def _li(name, bounds, quick=None, **kw):
    q = [dict(c, LEAF_INT=1) for c in (quick or [{}])]
    return dict(name='li_' + name, src='harnesses/C07_leaf.c', func='h_li_' + name, kernels=['C07_leaf_int'], unwind=4, quick=q, thorough=q, bounds=IB + bounds, **kw)
KFM = {'KF_C07_MINMAX_SCALAR': 1}
HARNESSES += [
 _li('unary', 'negative excludes the most negative value of a signed promoted type; positive, invert, logical_not unrestricted'),
 _li('addsub', 'signed results must not overflow (exact 128-bit guard); unsigned wrap-around included'),
 _li('mul', 'unsigned results: full range; SIGNED results: |x|,|y| < 2^7 (larger magnitudes give no verdict: 32x32 signed multiply with overflow obligation > 100 s); one query per dtype pair, z3',
     quick=[_pair(t, u, MULBITS=7) for t, u in IPAIRS], backend='z3'),
 _li('square', 'unsigned: full range; signed: |x| < 2^7', quick=[{'MULBITS': 7}], backend='z3'),
 _li('divmod', 'divide, mod, reciprocal: divisor != 0 and not (most negative / -1)', backend='z3'),
 _li('bitwise', 'bitwise_and / or / xor: unrestricted'),
 _li('shift', 'left_shift / right_shift: 0 <= shift < width of the promoted left type; signed left shift only of non-negative values whose result fits'),
 _li('cmp', 'equal .. greater_equal: unrestricted (mixed signedness follows C: -1 < 1u is false)'),
 _li('logical', 'logical_and / or / xor: unrestricted'),
 _li('minmax', 'maximum / minimum with a scalar right operand; region of the pending finding excluded', quick=[KFM]),
 _li('minmax_aa', 'maximum / minimum with both operands one-element arrays: unrestricted'),
]
FB = ('one symbolic 64-bit pattern per operand reinterpreted as float / double (all values incl. NaN, infinities, signed zeros, subnormals) or int; dtypes float, double and the mixed pairs '
      '(i32,f32) (f32,i32) (f32,f64) (i64,f32) (u32,f64); results compared bit for bit (NaN == NaN), widened exactly to double; ')
def _lf(name, bounds, quick=None, thorough=None, **kw):
    q = [dict(c, LEAF_FLT=1) for c in (quick or [{}])]; t = [dict(c, LEAF_FLT=1) for c in (thorough or quick or [{}])]
    return dict(name='lf_' + name, src='harnesses/C07_leaf.c', func='h_lf_' + name, kernels=['C07_leaf_flt'], unwind=4, quick=q, thorough=t, bounds=FB + bounds, backend='kissat', **kw)
UFT = 'LL_UF_FLOAT=1: IEEE + - * / are uninterpreted symbols shared by kernel and reference (decides operation, precision, operands and their order; exact rounding not modelled); '
HARNESSES += [
 _lf('arith1', 'negative, positive, logical_not: exact'),
 _lf('sqrec', UFT + 'square, reciprocal on a scalar operand', quick=[UF]), _lf('sqrec_a', UFT + 'square, reciprocal on a one-element array', quick=[UF]),
 _lf('addsub', UFT + 'plus one bit-exact IEEE query for (f32,f32) in quick and one per dtype pair in thorough; scalar operands (scalar_ufunc_t)',
     quick=[UF, _pair(F32, F32)], thorough=[UF] + [_pair(t, u) for t, u in FPAIRS]),
 _lf('mul', UFT + 'thorough adds bit-exact IEEE queries for (f32,f32), (i32,f32) and, optional, (f64,f64)', quick=[UF],
     thorough=[UF, _pair(F32, F32), _pair(I32, F32), _pair(F64, F64, _timeout=1800)], optional=True),
 _lf('div', UFT + 'thorough adds bit-exact IEEE queries for (f32,f32) and, optional, (f64,f64)', quick=[UF], thorough=[UF, _pair(F32, F32), _pair(F64, F64, _timeout=1800)], optional=True),
 _lf('arith_as', UFT + 'add, subtract, multiply, divide with (one-element array, scalar) operands', quick=[UF]),
 _lf('round', 'fabs, ceil, floor, trunc, rint on float, double, int: exact (CBMC library models)'),
 _lf('pred', 'isnan, isinf, isfinite, signbit on float, double, int: exact'),
 _lf('cmp', 'equal .. greater_equal: exact IEEE comparisons'), _lf('logical', 'logical_and / or / xor on floats: exact'),
 _lf('minmax', 'maximum / minimum (t > u ? t : u, C semantics for NaN) with a scalar right operand (pending finding region excluded) and with two arrays (unrestricted)', quick=[KFM]),
 _lf('fminmax', 'fmax / fmin: exact (C semantics for NaN), precision selected as <cmath> does'),
 _lf('fmod', 'fmod: uninterpreted (CBMC exact model: no verdict in 300 s): right function, precision, operands'),
 _lf('trans1', 'sqrt cbrt exp exp2 expm1 log log2 log10 log1p sin cos tan sinh cosh tanh arcsin arccos arctan arcsinh arccosh arctanh on float, double, int: UNINTERPRETED, i.e. only right function / precision / argument'),
 _lf('trans2', 'power, arctan2, hypot (7 dtype pairs), ldexp (f32,i32) (f64,i32): UNINTERPRETED, i.e. only right function / precision / arguments in order'),
]
AB = 'float and double one-element arrays, operand (all values incl. NaN/inf) and parameters symbolic; compared bit for bit (NaN == NaN) with the documented formula in comparison form; '
def _la(name, bounds, quick=None, **kw):
    q = [dict(c, LEAF_ACT=1) for c in (quick or [{}])]
    return dict(name='la_' + name, src='harnesses/C07_leaf.c', func='h_la_' + name, kernels=['C07_leaf_act'], unwind=4, quick=q, thorough=q, bounds=AB + bounds, backend='kissat', **kw)
HARNESSES += [
 _la('relu', 'relu, relu6 on float, double, int: exact'),
 _la('clamp', 'hardtanh (min <= max), hardshrink / softshrink (lambda >= 0), incl. the default parameters: exact IEEE'),
 _la('slope', UFT + 'leaky_relu, prelu with a symbolic slope', quick=[UF]), _la('slope_def', 'leaky_relu / prelu with default slopes on float: exact IEEE'),
 _la('rational', UFT + 'hardswish, softsign', quick=[UF]),
 _la('exp1', UFT + 'elu, celu, selu (+ defaults); exp uninterpreted', quick=[UF]), _la('exp2', UFT + 'sigmoid, silu, log_sigmoid, tanhshrink; exp/log/tanh uninterpreted', quick=[UF]),
 _la('exp3', UFT + 'softplus(beta, threshold), mish; exp/log/tanh uninterpreted', quick=[UF]),
]

# ---------------------------------------------------------------- (c) result element type (type level)
HARNESSES += [dict(name='ty_' + n, src='harnesses/C07_types.c', func='h_ty_' + n, kernels=['C07_types'], unwind=2,
                   quick=[KFM] if n == 'maximum' else [{}], thorough=[KFM] if n == 'maximum' else [{}],
                   bounds='TYPE LEVEL (no symbolic variable): declared element type and type returned by operator() of view::%s for every pair of '
                          '{int8,uint8,int32,uint32,int64%s}, array (op) array and array (op) scalar, against C\'s usual arithmetic conversions' % (n, '' if n in ('bitwise_and', 'left_shift') else ',float,double'))
              for n in ('add', 'multiply', 'divide', 'maximum', 'less', 'logical_and', 'bitwise_and', 'left_shift')]
HARNESSES += [dict(name='ty_outer_dtype', src='harnesses/C07_types.c', func='h_ty_outer_dtype', kernels=['C07_types'], unwind=2, quick=[{}], thorough=[{}],
                   bounds='TYPE LEVEL: element type of outer_subtract(int8, int32) without and with an explicit dtype (float32, int64, uint8)')]

PENDING_FINDINGS = [
 dict(id='C07-maximum-minimum-scalar-operand', harness='li_minmax', exclude_define='KF_C07_MINMAX_SCALAR', witness_inputs=['0x400040400000009f', '0x7fffff9f'],
      what='view::maximum / view::minimum with a SCALAR operand (either side) return the array operand\'s element type and convert the scalar to it: the scalar reaches '
           'maximum_t/minimum_t as a num-view object and `t > u ? t : u` converts the class operand to the other operand\'s type. '
           'view::maximum(int8[1]{-97}, int 2147483551)(0) == -97 (C / NumPy: 2147483551); maximum(int[1]{1}, 2.5)(0) == 2 although the view\'s declared element type is double. '
           'Array (op) array is correct (li_minmax_aa / lf_minmax).'),
 dict(id='C07-maximum-minimum-scalar-operand', harness='lf_minmax', exclude_define='KF_C07_MINMAX_SCALAR', witness_inputs=['0xffffffffffffffff', '0xbfffffffffffffff'],
      what='same defect on float dtypes: maximum(float[1], double scalar) / maximum(int[1], float scalar) truncate the scalar to the array element type'),
 dict(id='C07-maximum-minimum-scalar-operand', harness='ty_maximum', exclude_define='KF_C07_MINMAX_SCALAR', witness_inputs=[],
      what='type level: operator() of view::maximum(T[1], U scalar) returns T, the declared element type is the C common type'),
 dict(id='C07-where-scalar-operand', harness='where_mixed', exclude_define='KF_C07_WHERE_SCALAR',
      witness_inputs=['0x1', '0x0', '0x0', '0x0', '0x0', '0x0', '0x0', '0x2000000000000', '0x0', '0x2', '0x2', '0x0'], witness_config={'MAXE': 3},
      what='view::where(condition, x int[n], y long scalar): where_t::operator() evaluates `c ? x[i] : y` with y a num-view object, which converts y to int before the cast to the '
           'element type long: where([0],[0], 0x2000000000000)(0) == 0, NumPy: 562949953421312. Natively also where([0,1],[10,20],2.5) == [2.0, 20.0] (NumPy [2.5, 20.0]).'),
]
OUTSIDE = [
 'view::clip(array, amin, amax) does not compile for hybrid or fixed-shape operands (view::where is handed a maybe-typed condition; the repo\'s clip tests are disabled in tests/*/CMakeLists.txt); '
 'the n-ary view::ufunc(op, a, b, c) fails its n_args static_assert for array operands: ternary wiring is therefore view::where, and clip_t only on scalars',
 'wiring with operand dims above 2 (binary) / 3 (unary), extents above 4, view-typed operands, dynamic (std::vector) buffers, compile-time shapes: container kinds are C09',
 'every (op x dtype pair) through broadcasting operands: wiring is op-independent code and proved once per arity; leaf checks use one-element operands',
 'numerical accuracy of transcendental functions (uninterpreted), bit-exact IEEE rounding of / (float: no verdict in 600 s with kissat; double: not attempted beyond 100 s toy queries) and of double * (44 s in isolation with z3, no verdict inside a kernel query); float *, float/double + - are decided bit-exactly in the thorough tier; fmod (uninterpreted)',
 'signed integer multiplication with |operand| >= 2^7 (no verdict: > 100 s per dtype pair), signed overflow / division by zero / out-of-range shifts (undefined in C++)',
 'relu(NaN) == 0 in nmtools (PyTorch propagates NaN); maximum/minimum follow `t > u ? t : u` for NaN (np.maximum propagates NaN): the reference here is the C expression',
 'deg2rad / degrees / rad2deg / radians (view::multiply with a constant), amax / amin (C08); int16/uint16 dtypes, long double, complex; array::<ufunc> (eager evaluation: C04/C10)',
]
ASSUMPTIONS = ['transcendental libm functions, fmod and (in LL_UF_FLOAT queries) IEEE + - * / are uninterpreted functions shared by the kernel and the reference',
               'reference for float arithmetic = the bare C++ operator compiled by the same clang pipeline (k_ref_f* kernels contain no nmtools code)']
CLAIM = dict(
 text='(a) For hybrid operands with symbolic shapes (dims 1-3, extents 1..3/4), data and result index the solver shows: unary views keep the shape and apply the op per element; '
      'view::subtract of 2-d/1-d/2-d operands and of a scalar on either side is accepted iff NumPy-broadcastable, has the broadcast shape and element a[bcast i] - b[bcast i] in operand order; '
      'view::where (three operands) likewise; outer_subtract has shape(a)+shape(b) and element a[i]-b[j]. '
      '(b) 27 integer functors x 13 dtype pairs and the float/double functors (arithmetic, comparison, logical, rounding, predicates, fmax/fmin, 9 piecewise activations) equal the C expression on all '
      'inputs of the stated domains; 27 transcendental functors and 9 exp-based activations call the right library function on the right arguments (uninterpreted). '
      '(c) The declared element type equals C\'s usual arithmetic conversions for the full 7x7 dtype matrix. Two defects found and excluded as pending findings (scalar operand of maximum/minimum/where).',
 note='Bounded as listed per harness. Trusted: clang-14 -O1 lowering, engine/ll2c.py, CBMC, z3/kissat; validated per run by the differential gate and witness assertions.')
