import random, os
KERNELS = {'C01_index': dict(src='kernels/C01_index.cpp', flags=['-DNDEBUG'])}


def _arr(n, e): return {'N': n, 'MAXE': e, '_unwind': max(n, 2) + 2}


def _big(k):
    """per-query constant shapes: two fixed ones plus VERIF_SEED-seeded shapes with products near 2^31 and 2^40"""
    rnd = random.Random(int(os.environ.get('VERIF_SEED', '0') or 0) + 77)
    out = [{'N': 3, 'SH0': '1048583ul', 'SH1': '2049ul', 'SH2': '3ul'},
           {'N': 6, 'SH0': '2ul', 'SH1': '3ul', 'SH2': '5ul', 'SH3': '1ul', 'SH4': '3ul', 'SH5': '2ul'}]
    while len(out) < k:
        n = rnd.randint(2, 4); bits = rnd.choice([31, 40]); sh = []
        for i in range(n):
            b = bits if i == n - 1 else rnd.randint(0, min(bits, 20)); bits -= b
            sh.append(rnd.randint(1 << b, (1 << (b + 1)) - 1) if b > 0 else rnd.choice([1, 1, 2, 3]))
        rnd.shuffle(sh)
        c = {'N': n}
        for i, v in enumerate(sh): c['SH%d' % i] = '%dul' % v
        out.append(c)
    return out


HARNESSES = [
 dict(name='arr', src='harnesses/C01.c', func='h_arr', kernels=['C01_index'],
      bounds='std::array shapes of fixed dim N; every extent 1..MAXE, every flat offset < prod(shape), every in-shape multi-index: all symbolic',
      quick=[_arr(1, 8), _arr(2, 8), _arr(3, 8), _arr(4, 4), _arr(5, 3), _arr(6, 2)],
      thorough=[_arr(2, 16), _arr(3, 16), _arr(4, 8), _arr(5, 4), _arr(6, 3)]),
 dict(name='dyn', src='harnesses/C01.c', func='h_dyn', kernels=['C01_index'], unwind=8,
      bounds='static_vector<size_t,6> (KIND=0) / std::vector (KIND=1) shapes, dim 1..MAXD symbolic, extents 1..MAXE symbolic, every offset / in-shape index',
      quick=[{'KIND': 0, 'MAXD': 4, 'MAXE': 3}, {'KIND': 1, 'MAXD': 3, 'MAXE': 3}],
      thorough=[{'KIND': 0, 'MAXD': 4, 'MAXE': 4}, {'KIND': 0, 'MAXD': 6, 'MAXE': 2, '_unwind': 8}, {'KIND': 1, 'MAXD': 4, 'MAXE': 4}]),
 dict(name='tuple3', src='harnesses/C01.c', func='h_tuple3', kernels=['C01_index'], unwind=5,
      bounds='tuple<size_t,size_t,size_t> shape, extents 1..MAXE', quick=[{'MAXE': 8}], thorough=[{'MAXE': 16}]),
 dict(name='ct234', src='harnesses/C01.c', func='h_ct234', kernels=['C01_index'], unwind=26,
      bounds='compute_indices / compute_offset with a COMPILE-TIME constant offset (all 24, selected by a symbolic offset) and the constant shape (2,3,4), against the run-time function and the Horner form', quick=[{}], thorough=[{}]),
 dict(name='layout3', src='harnesses/C01.c', func='h_layout3', kernels=['C01_index'], unwind=6,
      bounds='row- and column-major hybrid 3-d arrays (buffer capacity 64), extents 1..MAXE, written/read multi-indices symbolic',
      quick=[{'MAXE': 4}], thorough=[{'MAXE': 4}]),
 dict(name='big', src='harnesses/C01.c', func='h_big', kernels=['C01_index'], unwind=8, backend='cvc5int', optional=True, timeout=60,
      bounds='shape is a per-query constant (two fixed shapes + VERIF_SEED-seeded shapes with products near 2^31 / 2^40: these are seeded choices, not exhaustive); '
             'the flat offset is symbolic over the whole shape; decided by cvc5 --solve-bv-as-int=sum on CBMC\'s SMT2 formula',
      quick=_big(6), thorough=_big(40)),
]
OUTSIDE = ['dims > 6', 'fully symbolic extents beyond the listed MAXE', 'Boost containers', 'compile-time constant shapes (types; see C09)',
           'huge shapes other than the enumerated per-query constants']
CLAIM = dict(
 text='For the listed container kinds the solver shows, for EVERY shape within the stated extents, every flat offset and every in-shape multi-index: '
      'strides are the trailing products, indices(offset) lies inside the shape, offset/indices are mutually inverse, the map is the row-major Horner form '
      '(hence order preserving and bijective), ndindex agrees, and row-/column-major arrays address the same logical element at the Horner positions of their layout. '
      'Huge shapes are per-query constants with the whole offset space symbolic (cvc5 integer encoding). The all-constant instantiations (compile-time offset k_ct for every k of the constant shape (2,3,4)) equal the run-time function and the Horner form.',
 note='Bounded: dims 1..6, extents <= 8 (quick) / 16 (thorough) symbolic; huge shapes enumerated (seeded), optional queries that time out are listed as no-verdict and not counted. '
      'Trusted: clang-14 -O1 lowering, engine/ll2c.py, CBMC; validated per run by gate (translated C vs g++ build) and witness assertions.')
