KERNELS = {'C01_index': dict(src='kernels/C01_index.cpp', flags=['-DNDEBUG'])}
def _arr(n, e): return {'N': n, 'MAXE': e, '_unwind': max(n, 2) + 2}
HARNESSES = [
 dict(name='arr', src='harnesses/C01.c', func='h_arr', kernels=['C01_index'],
      bounds='std::array shapes of fixed dim N; every extent 1..MAXE, every flat offset < prod(shape), every in-shape multi-index: all symbolic',
      quick=[_arr(1, 8), _arr(2, 8), _arr(3, 8), _arr(4, 4), _arr(5, 3), _arr(6, 2)],
      thorough=[_arr(2, 16), _arr(3, 16), _arr(4, 8), _arr(5, 4), _arr(6, 3)]),
 dict(name='dyn', src='harnesses/C01.c', func='h_dyn', kernels=['C01_index'], unwind=8,
      bounds='static_vector<size_t,6> (KIND=0) / std::vector (KIND=1) shapes, dim 1..MAXD symbolic, extents 1..MAXE symbolic, every offset / in-shape index',
      quick=[{'KIND': 0, 'MAXD': 4, 'MAXE': 3}, {'KIND': 1, 'MAXD': 3, 'MAXE': 3}],
      thorough=[{'KIND': 0, 'MAXD': 4, 'MAXE': 4}, {'KIND': 0, 'MAXD': 6, 'MAXE': 2, '_unwind': 8}, {'KIND': 1, 'MAXD': 4, 'MAXE': 4}]),
 dict(name='tuple3', src='harnesses/C01.c', func='h_tuple3', kernels=['C01_index'], unwind=5,
      bounds='tuple<size_t,size_t,size_t> shape, extents 1..MAXE', quick=[{'MAXE': 8}], thorough=[{'MAXE': 16}]),
 dict(name='layout3', src='harnesses/C01.c', func='h_layout3', kernels=['C01_index'], unwind=6,
      bounds='row- and column-major hybrid 3-d arrays (buffer capacity 64), extents 1..MAXE, written/read multi-indices symbolic',
      quick=[{'MAXE': 4}], thorough=[{'MAXE': 4}]),
]
OUTSIDE = ['dims > 6', 'fully symbolic extents beyond the listed MAXE', 'Boost containers', 'compile-time constant shapes (types; see C09)']
