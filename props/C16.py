KERNELS = {'C16_matmul': dict(src='kernels/C16_matmul.cpp', flags=['-DNDEBUG', '-DV1ONLY']),
           'C16_matmulv2': dict(src='kernels/C16_matmul.cpp', flags=['-DNDEBUG', '-DV2ONLY'])}
US = ['in_data8.0:18', 'k_fill_u8.0:18']


def _sh(a, b, **kw):
    """per-query constant operand shapes"""
    c = {'NA': len(a), 'NB': len(b), '_unwindset': US}
    for i, v in enumerate(a): c['A%d' % i] = v
    for i, v in enumerate(b): c['B%d' % i] = v
    c.update(kw); return c


EL = 'operand shapes are per-query constants (enumerated, listed per query); uint8 data of both operands (16 cells each) and the output index are symbolic'
HARNESSES = [
 dict(name='shape_matmul', src='harnesses/C16.c', func='h_shape_matmul', kernels=['C16_matmul'], unwind=7,
      bounds='index::shape_matmul on static_vector<size_t,4> shapes: both dims 1..4 and all extents 1..MAXE symbolic (every batch-broadcast pattern, 1-d promotion on either side, contraction mismatch)',
      quick=[{'MAXE': 4}], thorough=[{'MAXE': 6}]),
 dict(name='matmul_el', src='harnesses/C16.c', func='h_matmul_el', kernels=['C16_matmul'], unwind=6, bounds='view::matmul (v1, slicing implementation), hybrid operands; ' + EL,
      quick=[_sh((1, 3), (3, 1)), _sh((2, 3), (3, 2)), _sh((2, 1, 2), (2, 2))],
      thorough=[_sh((a, k), (k, b)) for a in (1, 2, 3) for k in (1, 2, 3) for b in (1, 2, 3)] + [_sh((2, 1, 2), (1, 2, 2)), _sh((1, 2, 2), (2, 2, 1)), _sh((2, 2), (2, 2, 2))]),
 dict(name='matmulv2_el', src='harnesses/C16.c', func='h_matmul_el', kernels=['C16_matmulv2'], unwind=6, bounds='view::matmulv2 (tile/reshape/transpose/multiply/sum pipeline), hybrid operands; ' + EL,
      quick=[_sh((3,), (3, 2), V2=1), _sh((2, 3), (3,), V2=1), _sh((2, 2), (2, 2), V2=1)],
      thorough=[_sh((k,), (k, b), V2=1) for k in (1, 2, 3) for b in (1, 2, 3)] + [_sh((a, k), (k,), V2=1) for k in (1, 2, 3) for a in (1, 2, 3)]),
]
OUTSIDE = []
ASSUMPTIONS = []
CLAIM = dict(text='', note='')
