KERNELS = {'C16_matmul': dict(src='kernels/C16_matmul.cpp', flags=['-DNDEBUG', '-DV1ONLY']),
           'C16_matmulv2': dict(src='kernels/C16_matmul.cpp', flags=['-DNDEBUG', '-DV2ONLY'])}
for _r in ('outer', 'vecdot', 'trace', 'dot', 'inner', 'kron', 'tensordot'):
    KERNELS['C16_' + _r] = dict(src='kernels/C16_other.cpp', flags=['-DNDEBUG', '-DR_' + _r.upper()])
US = ['in_data8.0:18', 'k_fill_u8.0:18', 'k_fill_u8.1:18']


def _sh(a, b, **kw):
    """per-query constant operand shapes"""
    c = {'NA': len(a), 'NB': len(b), '_unwindset': US}
    for i, v in enumerate(a): c['A%d' % i] = v
    for i, v in enumerate(b): c['B%d' % i] = v
    c.update(kw); return c


EL = 'operand shapes are per-query constants (enumerated, listed per query); uint8 data of both operands (16 cells each) and the output index are symbolic'
HARNESSES = [
 dict(name='shape_matmul', src='harnesses/C16.c', func='h_shape_matmul', kernels=['C16_matmul'], unwind=7,
      bounds='index::shape_matmul on static_vector<size_t,4> shapes: both dims 1..4 and all extents 1..MAXE symbolic (every batch-broadcast pattern, 1-d promotion on either side, contraction mismatch)',
      quick=[{'MAXE': 4}], thorough=[{'MAXE': 6}]),
 dict(name='matmul_el', src='harnesses/C16.c', func='h_matmul_el', kernels=['C16_matmul'], unwind=6, bounds='view::matmul (v1, slicing implementation), hybrid operands; ' + EL,
      quick=[_sh((1, 3), (3, 1)), _sh((2, 3), (3, 2)), _sh((2, 1, 2), (2, 2))],
      thorough=[_sh((a, k), (k, b)) for a in (1, 2, 3) for k in (1, 2, 3) for b in (1, 2, 3)] + [_sh((2, 1, 2), (1, 2, 2)), _sh((1, 2, 2), (2, 2, 1)), _sh((2, 2), (2, 2, 2))]),
 dict(name='matmulv2_el', src='harnesses/C16.c', func='h_matmul_el', kernels=['C16_matmulv2'], unwind=6, optional=True, timeout=600, mem_gb=8,
      bounds='view::matmulv2 (tile/reshape/transpose/multiply/sum pipeline), hybrid operands, the only implementation that compiles for rank-1 operands; ' + EL,
      quick=[], thorough=[_sh((2,), (2, 1), V2=1), _sh((2,), (2, 1), V2=1, _backend='kissat'), _sh((2,), (2, 1), V2=1, _backend='cadical'), _sh((1, 2), (2,), V2=1), _sh((1, 2), (2, 1), V2=1)]),
]


def _o(routine, func, shapes_quick, shapes_thorough, what, **kw):
    R = 'R_' + routine.upper()
    mk = lambda t: _sh(t[0], t[1], **dict({R: 1}, **(t[2] if len(t) > 2 else {}))) if t[1] is not None else dict({k: v for k, v in _sh(t[0], ()).items() if k != 'NB'}, **{R: 1})
    return dict(name=routine + '_el', src='harnesses/C16_other.c', func=func, kernels=['C16_' + routine], unwind=kw.pop('unwind', 6),
                bounds='view::%s, hybrid operands; %s; ' % (routine, what) + EL, quick=[mk(t) for t in shapes_quick], thorough=[mk(t) for t in shapes_thorough], **kw)


HARNESSES += [
 _o('outer', 'h_outer', [((2,), (3,)), ((2, 2), (2,))], [((3,), (3,)), ((2, 2), (3,)), ((2,), (2, 2))], 'out[i,j] = a.flat[i]*b.flat[j]'),
 _o('vecdot', 'h_vecdot', [((3,), (3,)), ((2, 3), (2, 3)), ((2, 3), (3,))], [((2, 3), (1, 3)), ((1, 2), (3, 2))], 'sum over the last axis of the broadcast product'),
 _o('trace', 'h_trace', [((2, 3), None), ((2, 2, 2), None)], [((3, 3), None), ((3, 2), None), ((2, 3, 2), None)], 'offset 0, axes (0,1)'),
 _o('dot', 'h_dotlike', [((3,), (3,)), ((2, 2), (2,)), ((2, 2), (2, 2))], [((2, 3), (3, 2)), ((2, 3), (3,))], 'np.dot'),
 _o('inner', 'h_dotlike', [((3,), (3,)), ((2, 2), (2,)), ((2, 2), (2, 2))], [((2, 3), (2, 3)), ((2, 3), (3,))], 'np.inner'),
 _o('kron', 'h_kron', [((2,), (2,)), ((2, 1), (1, 2))], [((2,), (3,)), ((2, 2), (2, 2))], 'np.kron of same-dim operands'),
 _o('tensordot', 'h_tensordot', [((2,), (2,), {'AXES': 1}), ((2, 2), (2, 2), {'AXES': 1}), ((2, 2), (2, 2), {'AXES': 2})], [((2, 3), (3, 2), {'AXES': 1}), ((2, 3), (2, 3), {'AXES': 2})],
    'integer axes (compile-time constant 1 or default 2)', unwind=18),
]
OUTSIDE = []
ASSUMPTIONS = []
CLAIM = dict(text='', note='')
