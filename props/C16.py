KERNELS = {'C16_matmul': dict(src='kernels/C16_matmul.cpp', flags=['-DNDEBUG', '-DV1ONLY']),
           'C16_matmulv2': dict(src='kernels/C16_matmul.cpp', flags=['-DNDEBUG', '-DV2ONLY'])}
for _r in ('outer', 'vecdot', 'trace', 'dot', 'inner', 'kron', 'tensordot'):
    KERNELS['C16_' + _r] = dict(src='kernels/C16_other.cpp', flags=['-DNDEBUG', '-DR_' + _r.upper()])
US = ['in_data8.0:18', 'k_fill_u8.0:18', 'k_fill_u8.1:18']


def _sh(a, b, **kw):
    """per-query constant operand shapes"""
    c = {'NA': len(a), 'NB': len(b), '_unwindset': US}
    for i, v in enumerate(a): c['A%d' % i] = v
    for i, v in enumerate(b): c['B%d' % i] = v
    c.update(kw); return c


EL = 'operand shapes are per-query constants (enumerated, listed per query); uint8 data of both operands (16 cells each) and the output index are symbolic'
HARNESSES = [
 dict(name='shape_matmul', src='harnesses/C16.c', func='h_shape_matmul', kernels=['C16_matmul'], unwind=7,
      bounds='index::shape_matmul on static_vector<size_t,4> shapes: both dims 1..4 and all extents 1..MAXE symbolic (every batch-broadcast pattern, 1-d promotion on either side, contraction mismatch)',
      quick=[{'MAXE': 4}], thorough=[{'MAXE': 6}]),
 dict(name='matmul_el', src='harnesses/C16.c', func='h_matmul_el', kernels=['C16_matmul'], unwind=6, bounds='view::matmul (v1, slicing implementation), hybrid operands; ' + EL,
      quick=[_sh((1, 3), (3, 1)), _sh((2, 3), (3, 2)), _sh((2, 1, 2), (2, 2)), _sh((1, 2, 2), (2, 2, 1)), _sh((2, 2), (2, 2, 1))],
      thorough=[_sh((a, k), (k, b)) for a in (1, 2, 3) for k in (1, 2, 3) for b in (1, 2, 3)] + [_sh((2, 1, 2), (1, 2, 2)), _sh((1, 2, 2), (2, 2, 1)), _sh((2, 2), (2, 2, 2))]),
 dict(name='matmul_mixed', src='harnesses/C16.c', func='h_matmul_mixed', kernels=['C16_matmul'], unwind=6, backend='kissat',
      bounds='view::matmul of operands with DIFFERENT element types (uint8 @ uint16 and, WIDE=1, uint16 @ uint8; uint16 values 256 + byte): result element type and exact element; ' + EL,
      quick=[_sh((1, 2), (2, 1), WIDE=0), _sh((1, 2), (2, 1), WIDE=1)], thorough=[_sh((2, 2), (2, 2), WIDE=0), _sh((2, 2), (2, 2), WIDE=1), _sh((1, 3), (3, 2), WIDE=0)]),
 dict(name='matmulv2_small', src='harnesses/C16.c', func='h_matmul_el', kernels=['C16_matmulv2'], unwind=6, timeout=900, mem_gb=10,
      bounds='view::matmulv2 with operand data restricted to 2-bit values (DBITS=2: positions, index ranges and the transposition of the right operand stay fully visible; the multiplier circuits shrink - with full 8-bit data these shapes give no verdict); ' + EL,
      quick=[_sh((1, 2), (2, 2), V2=1, DBITS=2), _sh((2,), (2, 2), V2=1, DBITS=2)], thorough=[_sh((2, 2), (2, 2), V2=1, DBITS=2, _timeout=1800), _sh((2, 2), (2, 1), V2=1, DBITS=2), _sh((1, 2), (2, 2), V2=1, DBITS=3, _timeout=1800)]),
 dict(name='matmulv2_el', src='harnesses/C16.c', func='h_matmul_el', kernels=['C16_matmulv2'], unwind=6, optional=True, timeout=900, mem_gb=10,
      bounds='view::matmulv2 (tile/reshape/transpose/multiply/sum pipeline), hybrid operands, the only implementation that compiles for rank-1 operands; ' + EL,
      quick=[], thorough=[_sh((2,), (2, 1), V2=1), _sh((1, 2), (2,), V2=1), _sh((1, 2), (2, 1), V2=1), _sh((2,), (2, 2), V2=1)]),   # kissat: out of memory (11.5 GB); cadical: no verdict in 600 s
]


def _o(routine, func, shapes_quick, shapes_thorough, what, **kw):
    R = 'R_' + routine.upper()
    mk = lambda t: _sh(t[0], t[1], **dict({R: 1}, **(t[2] if len(t) > 2 else {}))) if t[1] is not None else dict({k: v for k, v in _sh(t[0], ()).items() if k != 'NB'}, **{R: 1})
    return dict(name=routine + kw.pop('suffix', '_el'), src='harnesses/C16_other.c', func=func, kernels=['C16_' + routine], unwind=kw.pop('unwind', 6),
                bounds='view::%s, hybrid operands; %s; ' % (routine, what) + EL, quick=[mk(t) for t in shapes_quick], thorough=[mk(t) for t in shapes_thorough], **kw)


HARNESSES += [
 _o('outer', 'h_outer', [((2,), (3,)), ((2, 2), (2,)), ((2,), (2, 2))], [((3,), (3,)), ((2, 2), (3,))], 'out[i,j] = a.flat[i]*b.flat[j]'),
 _o('trace', 'h_trace', [((2, 3), None), ((3, 3), None), ((2, 2, 2), None)], [((3, 2), None), ((2, 3, 2), None)], 'offset 0, axes (0,1)'),
 _o('trace', 'h_trace_offset', [((3, 2), None), ((2, 3), None)], [((3, 3), None), ((2, 4), None), ((4, 2), None)], 'symbolic offset over every non-empty diagonal (positive and negative), axes (0,1)', suffix='_offset'),
 _o('kron', 'h_kron', [((2,), (2,)), ((2, 1), (1, 2)), ((2, 2), (2, 2))], [((2,), (3,))], 'np.kron of same-dim operands'),
 # measured (machine loaded 2-3x): 1-d x 1-d 30 s; (2,3)x(3,) 214 s / 3.8 GB; (2,3)x(2,3) out of memory at 5.3 GB in 65 s
 _o('vecdot', 'h_vecdot', [((3,), (3,))], [((3,), (3,))], 'sum over the last axis of the broadcast product'),
 _o('vecdot', 'h_vecdot', [], [((2, 3), (3,)), ((2, 3), (2, 3)), ((2, 3), (1, 3))], 'sum over the last axis of the broadcast product (2-d operands: thorough only, a timeout is recorded as no-verdict)', suffix='_el_2d', mem_gb=12, timeout=900, optional=True),
 # measured: 1-d 22 s; (2,2)x(2,) 126 s / 3.9 GB; (2,2)x(2,2) no verdict in 300 s
 _o('dot', 'h_dotlike', [((3,), (3,))], [((3,), (3,))], 'np.dot'),
 _o('dot', 'h_dotlike', [], [((2, 2), (2,)), ((2, 2), (2, 2)), ((2, 3), (3,)), ((2,), (2, 2))], 'np.dot (2-d operands: thorough only, a timeout is recorded as no-verdict)', suffix='_el_2d', mem_gb=12, timeout=900, optional=True),
 # measured: 1-d 39 s; (2,2)x(2,) 251 s / 4.0 GB; (2,2)x(2,2) no verdict in 300 s
 _o('inner', 'h_dotlike', [((3,), (3,))], [((3,), (3,))], 'np.inner'),
 _o('inner', 'h_dotlike', [], [((2, 2), (2,)), ((2, 2), (2, 2)), ((2, 3), (3,))], 'np.inner (2-d operands: thorough only, a timeout is recorded as no-verdict)', suffix='_el_2d', mem_gb=12, timeout=900, optional=True),
 # measured: 1-d axes=1 40 s; (2,2)x(2,2) axes=2 37-48 s; (2,2)x(2,2) axes=1 no verdict in 300 s
 _o('tensordot', 'h_tensordot', [((2,), (2,), {'AXES': 1}), ((2, 2), (2, 2), {'AXES': 2})], [((2,), (2,), {'AXES': 1}), ((2, 2), (2, 2), {'AXES': 2})],
    'integer axes (compile-time constant 1 or default 2)', unwind=18),
 _o('tensordot', 'h_tensordot', [], [((2, 2), (2, 2), {'AXES': 1}), ((2, 3), (2, 3), {'AXES': 2})],
    'integer axes (thorough only, a timeout is recorded as no-verdict)', unwind=18, suffix='_el_2d', mem_gb=12, timeout=900, optional=True),
]


def _mx(r, n, w, **kw): return dict({'R_' + r.upper(): 1, 'NA': 1, 'NB': 1, 'A0': n, 'B0': n, 'WIDE': w, '_unwindset': US}, **kw)
_MIXQ = {'outer': [0, 1], 'dot': [0], 'tensordot': [1], 'kron': [], 'vecdot': [], 'inner': []}   # measured: outer < 30 s, dot / tensordot 135-215 s, kron 260-270 s (kissat); vecdot out of memory at 6 GB, inner no verdict in 600 s
HARNESSES += [dict(name=r + '_mixed', src='harnesses/C16_other.c', func='h_mixed', kernels=['C16_' + r], unwind=18, backend='kissat', timeout=900, optional=r in ('vecdot', 'inner'), mem_gb=6 if r not in ('vecdot', 'inner') else 14,
                   bounds='view::%s of two 1-d operands of DIFFERENT element types (uint8 and uint16 = 256 + byte; WIDE selects the uint16 side), N = 2 (thorough 3) cells each: the element type of the result is a common type of both '
                          '(uint16 or int, never the narrower operand type) and the element is the definition evaluated in that type; data symbolic' % r,
                   quick=[_mx(r, 2, w) for w in _MIXQ[r]], thorough=[_mx(r, 2, w, _timeout=1800) for w in (0, 1)]) for r in ('outer', 'vecdot', 'dot', 'inner', 'kron', 'tensordot')]


def _s(routine, func, dims, what, **kw):
    """result SHAPE with symbolic extents (dims are per-query constants), through the real view composition, no element read"""
    R = 'R_' + routine.upper()
    cfgs = []
    for d in dims:
        c = {'NA': d[0], R: 1, 'SYMSHAPE': 1, 'MAXE': 4, '_unwindset': ['k_fill_u8.0:18', 'k_fill_u8.1:18']}
        if d[1] is not None: c['NB'] = d[1]
        if len(d) > 2: c.update(d[2])
        cfgs.append(c)
    return dict(name=routine + '_shape', src='harnesses/C16_other.c', func=func, kernels=['C16_' + routine], unwind=kw.pop('unwind', 6),
                bounds='shape of view::%s with SYMBOLIC extents 1..4 (operand dims are per-query constants, <= 16 cells each), contracted extents agreeing; %s' % (routine, what), quick=cfgs, thorough=cfgs, **kw)


HARNESSES += [
 _s('outer', 'h_outer', [(1, 1), (2, 1), (1, 2)], '(numel a, numel b)'),
 _s('vecdot', 'h_vecdot', [(2, 2), (2, 1), (1, 2), (1, 1)], 'broadcast shape without its last axis'),
 _s('trace', 'h_trace', [(2, None), (3, None)], 'shape[2:]'),
 _s('dot', 'h_dotlike', [(2, 2), (2, 1), (1, 2), (1, 1), (1, 3), (2, 3), (3, 2)], 'a[:-1] + b[:-2] + b[-1:]'),
 _s('inner', 'h_dotlike', [(2, 2), (2, 1), (1, 2), (1, 1)], 'a[:-1] + b[:-1]'),
 _s('kron', 'h_kron', [(1, 1), (2, 2)], 'elementwise product of the shapes'),
 _s('tensordot', 'h_tensordot', [(2, 2, {'AXES': 1}), (2, 2, {'AXES': 2})], 'a[:-N] + b[N:]', unwind=18),
]
OUTSIDE = [
 'ELEMENT level beyond the enumerated constant operand shapes (the property\'s "dim 1..4, extents 1..4 exhaustive" is reached for SHAPES only: index::shape_matmul fully symbolic)',
 'view::matmul (v1) with rank-1 operands: does not compile for fixed-dim operands (meta::range underflow in index::matmul); rank-1 promotion is only reachable through view::matmulv2',
 'view::matmulv2 elements: (2,)x(2,1) 380 s / 6.4 GB and (1,2)x(2,) 328 s / 4.2 GB return "holds" (thorough tier only, minisat; kissat out of memory at 11.5 GB, cadical no verdict in 600 s); '
 '(1,2)x(2,1), (3,)x(3,2), (2,3)x(3,), (2,2)x(2,2): no verdict in 300-600 s / out of memory at 5.4 GB - not claimed',
 '2-d operands of vecdot / dot / inner / tensordot are attempted in the thorough tier only (harnesses *_el_2d, optional: a timeout is recorded as no-verdict). Measured on a machine loaded 2-3x: '
 'vecdot (2,3)x(3,) holds 214-767 s / 3.8 GB, (2,3)x(1,3) holds 500 s / 6.1 GB, (2,3)x(2,3) no verdict in 900 s; dot (2,2)x(2,) holds 126-711 s / 3.9 GB, (2,3)x(3,) holds 261 s, (2,2)x(2,2) no verdict in 900 s; '
 'inner (2,2)x(2,) holds 251-278 s / 4.0 GB, (2,3)x(3,) and (2,2)x(2,2) no verdict in 900 s; tensordot (2,3)x(2,3) axes=2 holds 60 s, (2,2)x(2,2) axes=1 no verdict in 300-900 s. Only returned verdicts are claimed',
 'tensordot with explicit axis pairs, kron of operands with different dims, dot/inner of n-d x m-d operands',
 'mismatching operand shapes (C15: view::matmul unwraps a Nothing shape - see C15 PENDING_FINDINGS)',
 'float accumulation order, SIMD matmul, shape helper functions of dot/inner/kron/tensordot in isolation (covered through the routines\' result shapes at the enumerated shapes)',
]
ASSUMPTIONS = ['uint8 element type: sums of products are compared modulo 256 (wrap-around), which identifies the set of summed products']
CLAIM = dict(
 text='index::shape_matmul equals NumPy\'s matmul shape rule (acceptance and result) for every pair of shapes of dim 1..4 with extents 1..4 (all batch-broadcast patterns, 1-d promotion on either side). '
      'With symbolic extents 1..4 (operand dims enumerated: 1-d/2-d/3-d incl. a 1-d left operand with a 2-d / 3-d right operand for dot, trace 2-d/3-d) the result SHAPES of outer, vecdot, trace, dot, inner, kron and tensordot (axes 1 / 2) through the real view compositions equal NumPy\'s. '
      'For the enumerated constant operand shapes (incl. batch matmul of operands with different dim), with all uint8 operand data and the output index symbolic, view::matmul, outer, trace, kron, vecdot, dot, inner and tensordot (axes 1 / 2) return NumPy\'s '
      'result shape and the defining sum of products over exactly the contracted index range.',
 note='Element level: per-query constant shapes (quick: matmul (1,3)x(3,1), (2,3)x(3,2), batch (2,1,2)x(2,2) and (1,2,2)x(2,2,1); outer (2)x(3), (2,2)x(2); trace (2,3), (2,2,2); kron (2)x(2), (2,1)x(1,2); vecdot/dot/inner (3)x(3); '
      'tensordot (2)x(2) axes 1, (2,2)x(2,2) axes 2). Thorough adds all 2-d matmul pairs with extents <= 3, batch patterns, matmulv2 rank-1 promotion and the 2-d cases of vecdot/dot/inner/tensordot. '
      'Trusted: clang-14 -O1 lowering, engine/ll2c.py, CBMC; validated per run by gate and witness assertions.')
