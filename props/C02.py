"""C02: element access never leaves the operands' storage.

The obligations that decide C02 are (a) CBMC's pointer/bounds obligations on every load and store of the encoded nmtools code
(typed GEP translation: sub-object bounds of inner arrays), (b) the NMTOOLS_VERIF hooks: index < logical size of a bounded /
utl vector, flat offset < size() and every axis index < its extent in base_ndarray_t::operator(), no refused resize / push_back of a
bounded container, no silent early return of the evaluator. They are attached to every query of the framework; this check re-runs a
cross-section of the other properties' harnesses (views of every kind, eval, SIMD), each of which reads a SYMBOLIC element of the view's
reported shape for all accepted symbolic arguments, plus dedicated compositions of depth 2-3 (harnesses/C02.c).
"""
import importlib.util, os, copy
_ROOT = os.path.dirname(os.path.dirname(os.path.abspath(__file__)))


def _load(pid):
    sp = importlib.util.spec_from_file_location('c02_' + pid, os.path.join(_ROOT, 'props', pid + '.py'))
    m = importlib.util.module_from_spec(sp); sp.loader.exec_module(m); return m


# property -> harness names whose FIRST quick configuration is re-run here (None = all harnesses of that property)
PICK = {
 'C03': ['reshape3', 'flatten3', 'transpose3', 'transpose3_neg', 'moveaxis3_list', 'swapaxes3', 'expand_dims2', 'squeeze3', 'atleast_nd2', 'flip3_list'],
 'C04': ['tile', 'repeat', 'repeat_each', 'roll', 'roll_axes', 'take', 'concatenate', 'stack', 'pad', 'sliding_axis', 'tril', 'diagonal', 'expand', 'resize', 'compress', 'where', 'split'],
 'C05': ['view1', 'viewfam', 'viewdyn'],
 'C06': ['vbt', 'vba'],
 'C07': ['sub_21', 'sub_2s', 'where_122', 'outer_sub_21'],
 'C08': ['rsub_axis', 'radd_axes2', 'asub_axis'],
 'C10': ['ev_transpose_col', 'ev_reshape_old', 'ev_slice_old', 'ev_sum_row', 'ev_tile_old4', 'ev_pad_old4', 'ev_flip_transpose_old', 'ev_transpose_flip_slice_old', 'out_transpose_row', 'out_invert_old'],
 'C12': ['tight_avx', 'tight_sse', 'tight_v256', 'binary2_avx', 'reduce2_avx'],
 'C11': ['btraits', 'tile_traits', 'outer_traits', 'dimchange_traits'],
 'C13': ['th_transpose', 'th_add', 'thd_transpose'],
 # the library's own growable buffer (nmtools_list in NMTOOLS_DISABLE_STL builds) and bounded vector: every access inside the heap block / the logical size over 2-step histories
 'C19': ['hist_vector_ops2', 'copy_independent', 'copy_then_grow', 'hist_static_vector'],
}
PICK_ALL_QUICK = {'C19'}   # properties whose picked harnesses run ALL their quick configurations here (operation pairs are per-query constants)
LT_SKIP = {'C03.reshape3', 'C08.radd_axes2'}   # the two slowest picks run without lifetime modelling (budget)
KERNELS = {}
HARNESSES = []
for _pid, _names in PICK.items():
    try:
        _m = _load(_pid)
    except Exception as _e:      # a property spec that does not load is simply not part of the cross-section
        continue
    KERNELS.update(_m.KERNELS)
    for _h in _m.HARNESSES:
        if _names is not None and _h['name'] not in _names: continue
        _h2 = copy.deepcopy(_h); _h2['name'] = _pid + '.' + _h['name']; _h2['finding_pid'] = _pid; _h2['finding_harness'] = _h['name']
        if not _h.get('quick'): continue
        _h2['quick'] = _h['quick'] if _pid in PICK_ALL_QUICK else _h['quick'][:1]; _h2['thorough'] = _h['quick']
        if _h2['name'] not in LT_SKIP:      # dead stack objects become arbitrary (engine/ll2c.py LL_LIFETIME): a read through a dangling reference leaves the storage of every live object
            _h2['quick'] = [dict(c, LL_LIFETIME=1) for c in _h2['quick']]; _h2['thorough'] = [dict(c, LL_LIFETIME=1) for c in _h2['thorough']]
        _h2['bounds'] = '[from %s] %s' % (_pid, _h.get('bounds', ''))
        HARNESSES.append(_h2)
OUTSIDE = ['compositions other than the listed programs', 'device back ends', 'SIMD contexts other than those of C12']

ASSUMPTIONS = ['every query carries CBMC pointer/bounds obligations on all translated loads/stores plus the NMTOOLS_VERIF hook obligations (see module docstring)',
               'known findings of the source properties are excluded exactly as in those properties (matched through finding_pid / finding_harness)',
               'LL_LIFETIME: at llvm.lifetime.end the dead object is overwritten with arbitrary bytes, so use-after-scope reads are visible as unconstrained values (all picks except the two slowest)']
CLAIM = dict(
 text='Cross-section of %d harnesses from C03-C08, C10-C13, C19: for every accepted symbolic argument and a symbolic element index inside the reported shape (and for eval into inferred and '
      'caller-supplied outputs, SIMD packed loads/stores and tails on exact-size buffers, the per-thread device step), the solver shows that no load or store of the encoded nmtools code leaves its '
      'object or inner array, no bounded/utl vector is indexed at or beyond its logical size, every flat offset is below size() and every axis index below its extent in base_ndarray_t::operator(), '
      'no bounded container refuses a resize/push_back, and the evaluator never returns early on a shape mismatch; utl::vector (the STL-free growable buffer) and utl::static_vector stay inside their heap block / capacity over every 2-step history of push_back, resize, assign, copy and write.' % len(HARNESSES),
 note='Bounded as the source harnesses (dim <= 3/4, extents <= 3, listed compositions only). std::array / std::vector element access is covered by CBMC object bounds only (no logical-extent hook in std containers).')
