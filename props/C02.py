"""C02: element access never leaves the operands' storage.

The obligations that decide C02 are (a) CBMC's pointer/bounds obligations on every load and store of the encoded nmtools code
(typed GEP translation: sub-object bounds of inner arrays), (b) the NMTOOLS_VERIF hooks: index < logical size of a bounded /
utl vector, flat offset < size() and every axis index < its extent in base_ndarray_t::operator(), no refused resize / push_back of a
bounded container, no silent early return of the evaluator. They are attached to every query of the framework; this check re-runs a
cross-section of the other properties' harnesses (views of every kind, eval, SIMD), each of which reads a SYMBOLIC element of the view's
reported shape for all accepted symbolic arguments, plus dedicated compositions of depth 2-3 (harnesses/C02.c).
"""
import importlib.util, os, copy
_ROOT = os.path.dirname(os.path.dirname(os.path.abspath(__file__)))


def _load(pid):
    sp = importlib.util.spec_from_file_location('c02_' + pid, os.path.join(_ROOT, 'props', pid + '.py'))
    m = importlib.util.module_from_spec(sp); sp.loader.exec_module(m); return m


# property -> harness names whose FIRST quick configuration is re-run here (None = all harnesses of that property)
PICK = {
 'C03': None,
}
KERNELS = {}
HARNESSES = []
for _pid, _names in PICK.items():
    try:
        _m = _load(_pid)
    except Exception as _e:      # a property spec that does not load is simply not part of the cross-section
        continue
    KERNELS.update(_m.KERNELS)
    for _h in _m.HARNESSES:
        if _names is not None and _h['name'] not in _names: continue
        _h2 = copy.deepcopy(_h); _h2['name'] = _pid + '.' + _h['name']
        _h2['quick'] = (_h.get('quick') or [{}])[:1]; _h2['thorough'] = (_h.get('quick') or [{}])
        _h2['bounds'] = '[from %s] %s' % (_pid, _h.get('bounds', ''))
        HARNESSES.append(_h2)
OUTSIDE = ['compositions other than the listed programs', 'device back ends', 'SIMD contexts other than those of C12']
