# C20: array objects keep their invariants under resize / write / copy / assign / cast; mutable views write through
import os
KERNELS = {'C20_arrays': dict(src='kernels/C20_arrays.cpp', flags=['-DNDEBUG'])}
_PENDING_ON = not os.environ.get('NMV_NO_PENDING')
_US = ['ll_memcpy_loop.0:70', 'll_memmove_loop.0:70', 'll_memmove_loop.1:70', 'll_memset_loop.0:70', 'k_fill_u32.0:14']
HARNESSES = []
def _h(name, func, bounds, quick, thorough=None, kf=None, unwind=10, **kw):
    def cf(cs):
        out = []
        for c in cs:
            c = dict(c, _unwindset=_US)
            if _PENDING_ON:
                for k in (kf or {}).get(c.get('KIND', -1), []) if isinstance(kf, dict) else (kf or []): c[k] = 1     # TEMPORARY: pending findings
            out.append(c)
        return out
    kw.setdefault('backend', 'cadical')
    HARNESSES.append(dict(name=name, src='harnesses/C20.c', func=func, kernels=['C20_arrays'], unwind=unwind, bounds=bounds, quick=cf(quick), thorough=cf(thorough or quick), **kw))

HB = ('history of K symbolic steps on two live objects (default-constructed): {resize(shape of 1..4 extents, each MINE..MAXE: in-capacity, over-capacity and dimension-changing requests), '
      'write(in-shape index, any value), assign other, copy-construct+assign, self-assign}; afterwards for BOTH objects dim/shape/strides()/buffer length/known buffer cells are compared with the model, '
      'offset() of two symbolic in-shape probe indices equals the layout Horner form (so distinct indices -> distinct cells), every resize return value equals the model')
KINDS = {0: 'ndarray_t<static_vector<unsigned,8>, std::array<size_t,2>> row-major', 1: 'same, column-major', 2: 'ndarray_t<static_vector<unsigned,8>, static_vector<size_t,3>> row-major',
         3: 'same, column-major', 4: 'ndarray_t<std::vector<unsigned>, std::vector<size_t>> row-major (requests limited to <= 8 cells, dim <= 3)', 5: 'same, column-major', 6: 'ndarray_t<static_vector<unsigned,8>, std::array<size_t,3>> row-major'}
KINDS.update({9: 'ndarray_t<std::array<unsigned,4>, static_vector<size_t,3>> row-major (FIXED buffer: only 4-element shapes are accepted)', 10: 'same, column-major'})
KINDS.update({7: 'ndarray_t<static_vector<unsigned,4>, static_vector<size_t,3>> row-major (capacity 4)', 8: 'same, column-major'})
PREB = ('; PRE queries: the first two steps are per-query constants (object 0 and object 1 resized to PRE 0: (2,3)/(3,2), 1: (2,2)/(1,4), 2: (2,2,2)/(4), 3: (1,4)/(1,2,3)), the remaining step(s) symbolic')
CM = {1: ['KF_C20_COLMAJOR_STRIDES'], 3: ['KF_C20_COLMAJOR_STRIDES'], 5: ['KF_C20_COLMAJOR_STRIDES'], 8: ['KF_C20_COLMAJOR_STRIDES'], 10: ['KF_C20_COLMAJOR_STRIDES']}
BIG = dict(_timeout=1800, _mem_gb=12)
def _hk(kind, quick, thorough, unwind=10, **kw):
    _h('hist_kind%d' % kind, 'h_hist', KINDS[kind] + '; ' + HB + PREB, quick=[dict(c, KIND=kind) for c in quick], thorough=[dict(c, KIND=kind) for c in thorough], kf=CM, unwind=unwind, mem_gb=6, **kw)
_hk(0, [dict(K=2, MAXE=4)], [dict(K=3, MAXE=4, **BIG)])
_hk(1, [dict(K=2, MAXE=4)], [dict(K=3, MAXE=4, **BIG)])
_hk(6, [dict(K=2, MAXE=3)], [dict(K=3, MAXE=4, **BIG)])
_hk(7, [dict(K=1, MAXE=4), dict(K=3, MAXE=4, PRE=1)], [dict(K=3, MAXE=4, PRE=p, **BIG) for p in (0, 2, 3)] + [dict(K=2, MAXE=4, **BIG)], unwind=6)
_hk(8, [dict(K=1, MAXE=4), dict(K=3, MAXE=4, PRE=1, _mem_gb=8)], [dict(K=3, MAXE=4, PRE=p, **BIG) for p in (0, 2, 3)] + [dict(K=2, MAXE=4, **BIG)], unwind=6)
_hk(9, [dict(K=1, MAXE=4)], [dict(K=2, MAXE=4, **BIG)] + [dict(K=3, MAXE=4, PRE=p, **BIG) for p in (1, 3)], unwind=6)
_hk(10, [dict(K=1, MAXE=4)], [dict(K=2, MAXE=4, **BIG)] + [dict(K=3, MAXE=4, PRE=p, **BIG) for p in (1, 3)], unwind=6)
_hk(2, [], [dict(K=3, MAXE=3, PRE=p, **BIG) for p in (0, 1, 2, 3)] + [dict(K=1, MAXE=3, **BIG)], optional=True)
_hk(3, [], [dict(K=3, MAXE=3, PRE=p, **BIG) for p in (0, 1, 2, 3)] + [dict(K=1, MAXE=3, **BIG)], optional=True)
_hk(4, [], [dict(K=1, MAXE=2, CAPU=4, HCAP=4, _timeout=1800, _mem_gb=14)], unwind=6, optional=True)
_hk(5, [], [dict(K=1, MAXE=2, CAPU=4, HCAP=4, _timeout=1800, _mem_gb=14)], unwind=6, optional=True)
_h('hybrid2', 'h_hybrid2', 'legacy hybrid_ndarray<unsigned,8,2>: K symbolic steps {resize(a,b) with a,b in MINE..MAXE, write(i,j), assign, copy, self-assign} on two objects; shape/strides/known elements', quick=[{'K': 2}], thorough=[{'K': 3, **BIG}], unwind=10, mem_gb=6)
_h('dynamic', 'h_dynamic', 'legacy dynamic_ndarray<unsigned>: K symbolic steps {resize(shape dim 1..3, <= 8 cells), write(buffer position), assign, copy, self-assign}', quick=[], thorough=[{'K': 1, 'MAXE': 2, '_timeout': 1800, '_mem_gb': 14}], optional=True)
_h('dynamic_assign_from', 'h_dynamic_assign_from', 'dynamic_ndarray<unsigned> (2-d, symbolic shape, prepared through resize overload RSZ: 0 integers, 1 std::array, 2 static_vector, 3 std::vector) = hybrid 2-d array (symbolic shape and data), <= 8 cells', quick=[{'MAXE': 3}, {'MAXE': 2, 'RSZ': 1}], thorough=[{'MAXE': 3, 'RSZ': r} for r in (0, 1, 2, 3)], kf=['KF_C20_DYNAMIC_ASSIGN_SHAPE_MISMATCH'], mem_gb=8)
_h('fixed23', 'h_fixed23', 'fixed_ndarray<unsigned,2,3>: K symbolic steps {write(i,j), assign, copy, self-assign} on two objects with symbolic initial contents', quick=[{'K': 3}], thorough=[{'K': 5}])
_h('cast', 'h_cast', 'cast of a hybrid 2-d array (extents MINE..MAXE, <= 8 cells, all data symbolic): CASTK 0 cast<unsigned char>, 1 cast<long> of int, 2 cast<float> (bit-exact), 4 to ndarray_t<static_vector<unsigned,8>, static_vector<size_t,3>>',
   quick=[{'CASTK': 0}, {'CASTK': 1}, {'CASTK': 2, 'MAXE': 2}], thorough=[{'CASTK': 0}, {'CASTK': 1}, dict(CASTK=2, **BIG), dict(CASTK=4, MAXE=3, **BIG)], unwind=12, mem_gb=6)
_h('cast_dynamic', 'h_cast', 'cast of a hybrid 2-d array to kind::dynamic (dynamic_ndarray over std::vector), shape a per-query constant', quick=[], thorough=[dict(CASTK=3, SH0=2, SH1=3, _timeout=1800, _mem_gb=14)], unwind=12, optional=True)
_h('cast_fixed', 'h_cast_fixed', 'cast of fixed_ndarray<unsigned,2,3> to kind::hybrid, all data symbolic', quick=[{}], unwind=16)
_h('cast_fixed_dyn', 'h_cast_fixed_dyn', 'cast of fixed_ndarray<unsigned,2,3> to kind::dynamic', quick=[], thorough=[dict(_timeout=1800, _mem_gb=14)], unwind=12, optional=True)
MV = 'hybrid 3-d source (capacity 12), extents 1..MAXE with <= 12 cells, all contents, the view index and the written value symbolic; every source cell compared before/after'
_h('mut_flatten', 'h_mut_flatten', 'mutable_flatten; ' + MV, quick=[{}], unwind=14)
_h('mut_reshape', 'h_mut_reshape', 'mutable_reshape to every 2-d shape with the same element count; ' + MV, quick=[{}], unwind=14)
_h('mut_ref', 'h_mut_ref', 'mutable_ref; ' + MV, quick=[{}], unwind=14)
_h('mut_slice', 'h_mut_slice', 'mutable_slice of a hybrid 2-d source with (start,stop,step) per axis, 0 <= start < stop <= extent, step 1..3; contents/index/value symbolic', quick=[{}], unwind=14)
_h('mut_flatten_dyn', 'h_mut_flatten_dyn', 'mutable_flatten of ndarray_t<std::vector, std::vector> 2-d, shape a per-query constant', quick=[], thorough=[dict(SH0=2, SH1=3, _timeout=1800, _mem_gb=14)], unwind=14, optional=True)
# BEGIN PENDING_FINDINGS (generated from the replay files by the builder; one entry per harness that uses an exclusion macro)
PENDING_FINDINGS = [
 dict(id='F-C20-dynamic-assign-shape-mismatch', harness='dynamic_assign_from', exclude_define='KF_C20_DYNAMIC_ASSIGN_SHAPE_MISMATCH', witness_config={'MAXE': 3},
      witness_inputs=['0x2', '0x1', '0x2', '0x2', '0xffffffff00000002', '0xffffffff00000001', '0xffffffffffffffff', '0xffffffffffffffff', '0xffffffffffffffff', '0xffffffffffffffff', '0xffffffffffffffff', '0xffffffffffffffff'],
      what='NDEBUG: dynamic_ndarray = array of another shape keeps the old shape and copies numel_ elements, reading outside the source'),
 dict(id='F-C20-colmajor-strides', harness='hist_kind1', exclude_define='KF_C20_COLMAJOR_STRIDES', witness_config={'K': 2, 'MAXE': 4, 'KIND': 1},
      witness_inputs=['0x4', '0x0', '0x4', '0xffffffffffffffff', '0x1', '0x1', '0x3', '0x4', '0x3', '0x0', '0x3', '0x0', '0x1', '0x2', '0xffffffff00000000', '0x2', '0x3', '0x3', '0x3', '0x3', '0x0', '0x3', '0x0', '0x0', '0x0', '0x0', '0x0', '0x0'],
      what='column_major ndarray_t::strides() returns the row-major strides_ member (the layout lives only in offset_)'),
 dict(id='F-C20-colmajor-strides', harness='hist_kind8', exclude_define='KF_C20_COLMAJOR_STRIDES', witness_config={'K': 3, 'MAXE': 4, 'PRE': 1, 'KIND': 8},
      witness_inputs=['0x0', '0x0', '0x2', '0xffffffffffffffff', '0x2', '0x2', '0x1', '0x4', '0x3', '0x3', '0x3', '0x0', '0x1', '0x2', '0xffffffffffffffff', '0x1', '0x4', '0x1', '0x4', '0x3', '0x3', '0x3', '0x4', '0x0', '0x4', '0xffffffffffffffff', '0x4', '0x4', '0x4', '0x4', '0x3', '0x2', '0x3', '0x1', '0x1', '0x1', '0x1', '0x0', '0x0'],
      what='column_major ndarray_t::strides() returns the row-major strides_ member (the layout lives only in offset_)'),
]
# END PENDING_FINDINGS
OUTSIDE = [
 'arrays backed by std::vector (ndarray_t<std::vector,std::vector> row/column-major, legacy dynamic_ndarray, cast to kind::dynamic, mutable_flatten of a dynamic array): '
 'no verdict - CBMC runs out of memory (8.5-9 GB, 50-150 s) at the smallest configuration (one symbolic step from the default state, <= 4 cells; or a constant (2,3) shape with symbolic data). '
 'They are kept as optional thorough-tier queries (1800 s / 14 GB) and are not part of the claim',
 'bounded-dim kinds with capacity 8 (ndarray_t<static_vector<.,8>, static_vector<size_t,3>>): only in the thorough tier (one symbolic step after a concrete two-step prefix: 270 s / 8 GB); the quick tier uses the capacity-4 twin',
 'histories longer than K steps (K=2 quick / 3 thorough for fixed-dim kinds; 1 symbolic step after two concrete resizes for bounded-dim kinds); the property text asks for length <= 6',
 'contents after an ACCEPTED resize are only claimed for the cells the buffer keeps (positions < min(old,new) length); newly exposed cells are unspecified by the property',
 'cast between all 15 ndarray kinds: covered are element-type casts of a hybrid array, hybrid -> bounded-dim ndarray_t (thorough), fixed -> hybrid',
 'mutable_slice with negative / None / ellipsis slices (slice semantics are C05); write-through is shown for 0 <= start < stop <= extent, step 1..3',
 'extents > 4, dims > 3, zero extents (MINE=1)', 'element types other than unsigned/int/float',
]
ASSUMPTIONS = ['the reference for buffer contents is kept at buffer-cell level (row-major or column-major Horner position of the written index), i.e. the layout is part of the model']
CLAIM = dict(
 text='For ndarray_t with bounded buffer (fixed dim 2 and 3, capacity 8, row- and column-major; bounded dim <= 3, capacity 4, row- and column-major), ndarray_t with a FIXED buffer of 4 cells and a resizable bounded-dim shape (row- and column-major: only 4-element requests are accepted), the legacy hybrid_ndarray and fixed_ndarray, '
      'over every bounded history of {resize (in-capacity, over-capacity, dimension-changing), write, assign, copy-construct, self-assign} on two live objects the solver shows: resize returns true exactly when '
      'the request fits the dimension/capacity bounds; a refused resize leaves dim, shape, strides, buffer length and contents untouched; buffer length == product(shape); strides are the trailing products '
      '(row-major); offset() is the layout Horner form, so distinct in-shape indices address distinct cells inside the buffer; copies are independent of their source; every cell holds the last value written to it. '
      'cast<unsigned char>/cast<long>/cast<float> and fixed->hybrid keep the shape and convert each value like static_cast. dynamic_ndarray prepared through each of its three resize overloads and then assigned from an array of the same shape holds exactly the source. A write through mutable_flatten / mutable_reshape / mutable_slice / mutable_ref '
      'at a symbolic index changes exactly src[ref(i)] and reads back the written value.',
 note='Pending findings (excluded regions, see PENDING_FINDINGS): strides() of column-major arrays are the row-major ones; dynamic_ndarray = array of another shape. '
      'Bounded: K <= 2 (quick) / 3 (thorough), extents 1..4, <= 8 (4) cells. std::vector-backed kinds gave no verdict (OUTSIDE). Trusted: clang-14 -O1 lowering, engine/ll2c.py, CBMC (cadical back end).')
