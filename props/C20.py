# C20: array objects keep their invariants under resize / write / copy / assign / cast; mutable views write through
import os
KERNELS = {'C20_arrays': dict(src='kernels/C20_arrays.cpp', flags=['-DNDEBUG'])}
_PENDING_ON = not os.environ.get('NMV_NO_PENDING')
_US = ['ll_memcpy_loop.0:70', 'll_memmove_loop.0:70', 'll_memmove_loop.1:70', 'll_memset_loop.0:70', 'k_fill_u32.0:14']
HARNESSES = []
def _h(name, func, bounds, quick, thorough=None, kf=None, unwind=10, **kw):
    def cf(cs):
        out = []
        for c in cs:
            c = dict(c, _unwindset=_US)
            if _PENDING_ON:
                for k in (kf or {}).get(c.get('KIND', -1), []) if isinstance(kf, dict) else (kf or []): c[k] = 1     # TEMPORARY: pending findings
            out.append(c)
        return out
    HARNESSES.append(dict(name=name, src='harnesses/C20.c', func=func, kernels=['C20_arrays'], unwind=unwind, bounds=bounds, quick=cf(quick), thorough=cf(thorough or quick), **kw))

HB = ('history of K symbolic steps on two live objects (default-constructed): {resize(shape of 1..4 extents, each MINE..MAXE: in-capacity, over-capacity and dimension-changing requests), '
      'write(in-shape index, any value), assign other, copy-construct+assign, self-assign}; afterwards for BOTH objects dim/shape/strides()/buffer length/known buffer cells are compared with the model, '
      'offset() of two symbolic in-shape probe indices equals the layout Horner form (so distinct indices -> distinct cells), every resize return value equals the model')
KINDS = {0: 'ndarray_t<static_vector<unsigned,8>, std::array<size_t,2>> row-major', 1: 'same, column-major', 2: 'ndarray_t<static_vector<unsigned,8>, static_vector<size_t,3>> row-major',
         3: 'same, column-major', 4: 'ndarray_t<std::vector<unsigned>, std::vector<size_t>> row-major (requests limited to <= 8 cells, dim <= 3)', 5: 'same, column-major', 6: 'ndarray_t<static_vector<unsigned,8>, std::array<size_t,3>> row-major'}
for kind in (0, 1, 2, 3, 6, 4, 5):
    heavy = kind in (4, 5)
    _h('hist_kind%d' % kind, 'h_hist', KINDS[kind] + '; ' + HB, quick=[{'KIND': kind, 'K': 2 if heavy else 3, 'MAXE': 3 if heavy else 4}], thorough=[{'KIND': kind, 'K': 3, 'MAXE': 4}],
       kf={1: ['KF_C20_COLMAJOR_STRIDES'], 3: ['KF_C20_COLMAJOR_STRIDES'], 5: ['KF_C20_COLMAJOR_STRIDES']}, unwind=10, mem_gb=8)
_h('hybrid2', 'h_hybrid2', 'legacy hybrid_ndarray<unsigned,8,2>: K symbolic steps {resize(a,b) with a,b in MINE..MAXE, write(i,j), assign, copy, self-assign} on two objects; shape/strides/known elements', quick=[{'K': 3}], thorough=[{'K': 4}])
_h('dynamic', 'h_dynamic', 'legacy dynamic_ndarray<unsigned>: K symbolic steps {resize(shape dim 1..3, <= 8 cells), write(buffer position), assign, copy, self-assign}', quick=[{'K': 2, 'MAXE': 3}], thorough=[{'K': 3}], mem_gb=8)
_h('dynamic_assign_from', 'h_dynamic_assign_from', 'dynamic_ndarray<unsigned> (2-d, symbolic shape) = hybrid 2-d array (symbolic shape and data), <= 8 cells', quick=[{}], kf=['KF_C20_DYNAMIC_ASSIGN_SHAPE_MISMATCH'])
_h('fixed23', 'h_fixed23', 'fixed_ndarray<unsigned,2,3>: K symbolic steps {write(i,j), assign, copy, self-assign} on two objects with symbolic initial contents', quick=[{'K': 4}], thorough=[{'K': 6}])
_h('cast', 'h_cast', 'cast of a hybrid 2-d array (extents MINE..MAXE, <= 8 cells, all data symbolic): CASTK 0 cast<unsigned char>, 1 cast<long> of int, 2 cast<float>, 3 kind::dynamic, 4 to ndarray_t<static_vector, static_vector>',
   quick=[{'CASTK': c} for c in range(5)])
_h('cast_fixed', 'h_cast_fixed', 'cast of fixed_ndarray<unsigned,2,3> to kind::hybrid and kind::dynamic, all data symbolic', quick=[{}])
MV = 'hybrid 3-d source (capacity 12), extents 1..MAXE with <= 12 cells, all contents, the view index and the written value symbolic; every source cell compared before/after'
_h('mut_flatten', 'h_mut_flatten', 'mutable_flatten; ' + MV, quick=[{}], unwind=14)
_h('mut_reshape', 'h_mut_reshape', 'mutable_reshape to every 2-d shape with the same element count; ' + MV, quick=[{}], unwind=14)
_h('mut_ref', 'h_mut_ref', 'mutable_ref; ' + MV, quick=[{}], unwind=14)
_h('mut_slice', 'h_mut_slice', 'mutable_slice of a hybrid 2-d source with (start,stop,step) per axis, 0 <= start < stop <= extent, step 1..3; contents/index/value symbolic', quick=[{}], unwind=14)
_h('mut_flatten_dyn', 'h_mut_flatten_dyn', 'mutable_flatten of ndarray_t<std::vector, std::vector> 2-d, <= 12 cells', quick=[{'MAXE': 3}], thorough=[{'MAXE': 4}], unwind=14)
PENDING_FINDINGS = []
OUTSIDE = []
ASSUMPTIONS = []
CLAIM = dict(text='', note='')
