KERNELS = {'C17_softmax': dict(src='kernels/C17_softmax.cpp', flags=['-DNDEBUG']),
           'C17_pool': dict(src='kernels/C17_pool.cpp', flags=['-DNDEBUG']),
           'C17_conv': dict(src='kernels/C17_conv.cpp', flags=['-DNDEBUG', '-DNO_ELEMENTS']),
           'C17_shapes': dict(src='kernels/C17_shapes.cpp', flags=['-DNDEBUG']),
           'C17_conv_el': dict(src='kernels/C17_conv.cpp', flags=['-DNDEBUG', '-DELEMENTS_ONLY'])}


def _p(h, w, kh, kw, sh, sw, ceil, n=1, c=1, **kw_):
    cells = n * c * h * w
    cfg = {'H': h, 'W': w, 'KH': kh, 'KW': kw, 'SH': sh, 'SW': sw, 'CEIL': ceil, '_unwindset': ['draw.0:34', 'k_fill_u8.0:%d' % (cells + 2), 'k_fill_u8.1:%d' % (cells + 2)]}
    if n != 1: cfg['N'] = n
    if c != 1: cfg['C'] = c
    cfg['_unwind'] = max(6, kh * kw + 2)
    cfg.update(kw_); return cfg


# quick: a dozen tuples incl. overhanging ceil-mode windows, the formerly failing ceil case (4,4,k=(2,1),s=(2,2)) and windows whose ceil start falls outside
QUICK = [_p(4, 4, 2, 2, 2, 2, 0), _p(4, 3, 2, 2, 1, 1, 0), _p(3, 3, 2, 2, 2, 2, 1), _p(4, 4, 2, 1, 2, 2, 1), _p(5, 5, 3, 3, 2, 2, 1), _p(5, 4, 2, 3, 3, 2, 1),
         _p(3, 5, 1, 2, 3, 3, 1), _p(2, 2, 2, 2, 1, 1, 0), _p(5, 3, 3, 1, 1, 2, 0), _p(4, 5, 3, 2, 3, 3, 1), _p(1, 1, 1, 1, 1, 1, 1), _p(3, 3, 3, 3, 3, 3, 1)]
ALL = [_p(h, w, kh, kw, s, s, c) for h in range(1, 6) for w in range(1, 6) for kh in range(1, 4) for kw in range(1, 4) for s in range(1, 4) for c in (0, 1) if kh <= h and kw <= w]
PB = 'hybrid uint8 (N,C,H,W) input (capacity 32); (H,W,kernel,stride,ceil_mode) are per-query constants (enumerated; listed per query), all element data and the output index symbolic'
HARNESSES = [
 dict(name='shape_pool2d', src='harnesses/C17.c', func='h_shape_pool2d', kernels=['C17_pool'], unwind=6,
      bounds='index::shape_pool2d + slice_pool2d, array<size_t,4> shape: N,C 1..2, H,W 1..MAXN, kernel 1..3 (<= input), stride 1..3, ceil_mode, output index: all symbolic',
      quick=[{'MAXN': 7}], thorough=[{'MAXN': 12}]),
 dict(name='max_pool2d', src='harnesses/C17.c', func='h_max_pool2d', kernels=['C17_pool'], unwind=6, timeout=1200, bounds='view::max_pool2d; ' + PB, quick=[c for i, c in enumerate(QUICK) if i not in (4, 11)], thorough=ALL +   # the two 3x3-kernel tuples (360-490 s each since the reducer has no implicit initial) are thorough-tier (part of ALL)
       [_p(2, 2, 2, 1, 1, 1, 1, n=2, c=2), _p(3, 3, 2, 2, 2, 2, 1, n=1, c=2)]),
 dict(name='avg_pool2d', src='harnesses/C17.c', func='h_avg_pool2d', kernels=['C17_pool'], unwind=6, backend='cadical', timeout=600,
      bounds='view::avg_pool2d (float32 result); ' + PB, quick=[QUICK[3], QUICK[2], QUICK[0]], thorough=ALL),
 dict(name='max_pool2d_i8', src='harnesses/C17.c', func='h_max_pool2d_i8', kernels=['C17_pool'], unwind=6, bounds='view::max_pool2d on SIGNED int8 data (negative maxima); ' + PB, quick=[QUICK[0], QUICK[3], QUICK[5]], thorough=QUICK, timeout=1200),
 dict(name='max_pool2d_fn', src='harnesses/C17.c', func='h_max_pool2d', kernels=['C17_pool'], unwind=6, bounds='fn::apply(get_function_composition(max_pool2d view), its operands): the extracted functor with its attributes (kernel, stride, ceil mode); ' + PB,
      quick=[dict(c, VIA_FN=1) for c in (QUICK[3], QUICK[5])], thorough=[dict(c, VIA_FN=1) for c in QUICK]),
 dict(name='avg_pool2d_fn', src='harnesses/C17.c', func='h_avg_pool2d', kernels=['C17_pool'], unwind=6, backend='cadical', timeout=600,
      bounds='fn::apply(get_function_composition(avg_pool2d view), its operands) (kernel != stride in the listed tuples); ' + PB, quick=[dict(c, VIA_FN=1) for c in (QUICK[3], QUICK[1])], thorough=[dict(c, VIA_FN=1) for c in QUICK]),
]


def _ci(name, bounds, **kw):
    q = kw.pop('q', 6); t = kw.pop('t', 7); cfg = kw.pop('cfg', {})
    return dict(name=name, src='harnesses/C17_conv.c', func=kw.pop('func', 'h_' + name), kernels=['C17_conv'], unwind=kw.pop('unwind', 14), bounds=bounds,
                quick=[dict({'MAXL': q}, **cfg)] if q else [], thorough=[dict({'MAXL': t}, **cfg)], **kw)


HARNESSES += [
 _ci('conv1d_shape_nopad', 'as conv1d_shape with padding = None', func='h_conv1d_shape', cfg={'NOPAD': 1, 'KF_C17_CONV_BATCH': 1}, unwind=8),
 _ci('conv2d_shape_nopad', 'as conv2d_shape with padding = None', func='h_conv2d_shape', cfg={'NOPAD': 1, 'KF_C17_CONV_BATCH': 1, 'KF_C17_CONV2D_DILATION_ORDER': 1}, unwind=12, q=4, t=5),
 _ci('conv1d_shape', 'shape of view::conv1d through the real convnd pipeline (no element read): hybrid input (N 1..2, C 1..2, L 1..MAXL), weight (C_out 1..2, C, K 1..3), stride 1..3, padding 0..2, dilation 1..2, all symbolic (positive output size)',
     cfg={'KF_C17_CONV_BATCH': 1}, mem_gb=10, q=None, t=4),
 _ci('conv2d_shape', 'shape of view::conv2d (no element read): input (1..2, 1..2, 1..MAXL, 1..MAXL) with <= 64 cells, weight (1..2, C, 1..3, 1..3), stride/padding/dilation pairs 1..3 / 0..2 / 1..2, all symbolic', q=None, t=3, cfg={'KF_C17_CONV_BATCH': 1, 'KF_C17_CONV2D_DILATION_ORDER': 1}, mem_gb=10),
 _ci('sliding_window', 'index::shape_sliding_window + sliding_window over the last two axes of a 4-d shape (the convnd configuration), extents 1..MAXL, window 1..3, window index symbolic'),
 _ci('expand', 'index::shape_expand + expand (dilation) on the last two axes, extents 1..MAXL, spacing 0..2, index symbolic'),
 _ci('pad_index', 'index::shape_pad + pad on a 4-d shape, extents 1..MAXL, widths 0..2, index symbolic', unwind=11),
 # conv ELEMENTS at constant tiny shapes (fixed arrays), uint8 data + output index symbolic. Measured on a loaded machine (minisat): plain 294-393 s / 9.4 GB, stride 2 294 s / 9.8 GB,
 # two channels 212 s / 10 GB, bias 451 s / 10.3 GB, dilation 2 459 s / 15.3 GB; padding 1: no verdict in 1200 s (optional); groups 2: killed at 16.3 GB (not listed as a query); kissat: out of memory at 17 GB; cadical: no verdict in 600 s.
] + [dict(name='conv1d_el' + sfx, src='harnesses/C17_conv.c', func='h_conv1d_el' + sfx, kernels=['C17_conv_el'], unwind=8, timeout=1800, mem_gb=16, optional=opt,
          bounds='view::conv1d ELEMENT, constant shapes: ' + b + '; uint8 data and the output index symbolic', quick=[], thorough=[{'ELEMENTS': 1}])
     for sfx, b, opt in [('', 'input (1,1,3) * weight (1,1,2), defaults', False), ('_s2', 'stride 2, input (1,1,4) * weight (1,1,2)', False), ('_c2', 'two input channels, input (1,2,2) * weight (1,2,2)', False),
                         ('_bias', 'bias, input (1,1,3) * weight (1,1,2) + (1)', False), ('_d2', 'dilation 2, input (1,1,3) * weight (1,1,2) (459 s / 15.3 GB measured)', False), ('_p1', 'padding 1, input (1,1,2) * weight (1,1,2)', True)]] + [
 # conv2d_el (h_conv2d_el: input (1,1,2,2) * weight (1,1,2,2)) is not listed as a query: cbmc was killed at 20.8 GB after 507 s (unwind 12; unwind 8 is too small).
]
ST = 'STRUCTURAL (shape only, no float arithmetic evaluated): hybrid float operands with symbolic extents 1..MAXE; '
HARNESSES += [dict(name=n + '_shape', src='harnesses/C17_shapes.c', func='h_' + n + '_shape', kernels=['C17_shapes'], unwind=8, bounds=ST + b, quick=q, thorough=t, timeout=1200 if not q else 300)
              for n, b, q, t in [('softmax', '2-d input, axis in [-2,1]', [{'MAXE': 3}], [{'MAXE': 4}]), ('softmin', '2-d input, axis in [-2,1]', [{'MAXE': 3}], [{'MAXE': 4}]), ('linear', 'x (n,in), w (out,in), b (out)', [{'MAXE': 3}], [{'MAXE': 4}]),
                           ('bilinear', 'l (n,in1), r (n,in2), w (out,in1,in2), b (out)', [], [{'MAXE': 3}]), ('pairwise_distance', 'two (n,d) operands', [{'MAXE': 3}], [{'MAXE': 4}]), ('cosine_similarity', 'two (n,d) operands, axis 1', [{'MAXE': 3}], [{'MAXE': 4}]),
                           ('batch_norm', '(N,C,H,W) input <= 36 cells, per-channel mean/var/weight/bias', [], [{'MAXE': 3}]), ('instance_norm', '(N,C,H,W) input, per-channel weight/bias', [], [{'MAXE': 2}]),
                           ('group_norm', '(N,C,H,W) input, groups dividing C', [], [{'MAXE': 2}]), ('layer_norm', '(N,C,H,W) input, normalized shape (H,W)', [], [{'MAXE': 3}])]]
_W = lambda *v: ['0x%x' % (x & (2**64 - 1)) for x in v]
# TEMPORARY (to be moved into known_findings.json or fixed by the lead): solver counterexamples replayed natively
_BATCH = ('view::conv1d(input (2,1,2), weight (2,1,1), stride 2) is Nothing (PyTorch: shape (2,2,1)); with padding the same call throws std::bad_array_new_length. index::conv_reshape_input '
          '(convnd.hpp:12-46) sets every leading extent to 1, i.e. drops the batch extent, so the reshape of the input fails for any batch size > 1 (conv1d and conv2d). Region: N > 1.')
_DIL = ('view::conv2d(input (1,1,4,1), weight (1,1,3,1), stride (2,2), dilation (1,2)) is Nothing (PyTorch: shape (1,1,1,1)): conv_window_axis is (-1,-2) while conv_expand_spacing keeps the '
        'order of the dilation pair, so dilation[0] is applied to the width and dilation[1] to the height (kernel_size is reversed consistently, dilation is not). Region: dilation[0] != dilation[1].')
def _sm(sh0, sh1, axis, mn=0, **kw):
    c = {'SH0': sh0, 'SH1': sh1, 'AXIS': axis, 'MIN': mn, 'LL_UF_FLOAT': 1, '_unwindset': ['k_fill_f32.0:11', 'h_softmax_el.0:11']}; c.update(kw); return c
HARNESSES += [dict(name='softmax_el', src='harnesses/C17_softmax.c', func='h_softmax_el', kernels=['C17_softmax'], unwind=6, backend='kissat', timeout=900, mem_gb=8, gate=False,
    bounds='STRUCTURAL element check of view::softmax / softmin (MIN=1): shape (SH0,SH1) and AXIS are per-query constants; integer-valued float data in [-200,200] (all-negative slices included) and the index symbolic; '
           'IEEE + - / and expf are uninterpreted symbols shared by the translated nmtools code and the reference (LL_UF_FLOAT): decided is that the slice maximum is subtracted before exp, which elements enter the sum, in which order, and the final division',
    quick=[], thorough=[_sm(1, 3, -1, _timeout=1800), _sm(2, 2, 0, _timeout=1800), _sm(2, 2, 1, _timeout=1800), _sm(3, 1, 0, _timeout=1800), _sm(1, 3, 1, mn=1, _timeout=1800), _sm(2, 2, 0, mn=1, _timeout=1800)])]   # measured: 395 s (1,3) and 740 s (2,2) at 6.3 GB on the loaded machine
PENDING_FINDINGS = [
 dict(id='C17-conv-batch', harness='conv1d_shape_nopad', exclude_define='KF_C17_CONV_BATCH', witness_config={}, witness_inputs=_W(2, 1, 2, 2, 1, 2, 0, 1), what=_BATCH),
 dict(id='C17-conv-batch', harness='conv1d_shape', exclude_define='KF_C17_CONV_BATCH', witness_config={}, witness_inputs=_W(2, 1, 2, 2, 1, 2, 0, 1), what='same inputs through the kernel with padding (padding 0)'),
 dict(id='C17-conv-batch', harness='conv2d_shape_nopad', exclude_define='KF_C17_CONV_BATCH', witness_config={}, witness_inputs=_W(2, 1, 3, 4, 2, 3, 3, 2, 0, 1, 2, 0, 1),
      what='same defect in conv2d: input (2,1,3,4), weight (2,1,3,3), stride (2,2), dilation (1,1)'),
 dict(id='C17-conv-batch', harness='conv2d_shape', exclude_define='KF_C17_CONV_BATCH', witness_config={}, witness_inputs=_W(2, 1, 3, 3, 2, 3, 3, 2, 0, 1, 2, 0, 1),
      what='same defect in conv2d with padding (0,0): input (2,1,3,3), weight (2,1,3,3)'),
 dict(id='C17-conv2d-dilation-order', harness='conv2d_shape_nopad', exclude_define='KF_C17_CONV2D_DILATION_ORDER', witness_config={}, witness_inputs=_W(1, 1, 4, 1, 1, 3, 1, 2, 0, 1, 2, 0, 2), what=_DIL),
 dict(id='C17-conv2d-dilation-order', harness='conv2d_shape', exclude_define='KF_C17_CONV2D_DILATION_ORDER', witness_config={}, witness_inputs=_W(1, 1, 3, 1, 1, 2, 1, 1, 0, 1, 1, 0, 2),
      what='same defect: input (1,1,3,1), weight (1,1,2,1), stride (1,1), padding (0,0), dilation (1,2): PyTorch H_out 2, nmtools 1'),
]
OUTSIDE = [
 'conv ELEMENTS beyond five constant tiny conv1d cases (thorough tier, ~4-8 min and 10-15 GB each, minisat): plain (1,1,3)*(1,1,2), stride 2 (1,1,4)*(1,1,2), two channels (1,2,2)*(1,2,2), bias (1,1,3)*(1,1,2)+(1), dilation 2 (1,1,3)*(1,1,2) hold. '
 'Not reached: padding 1 (no verdict in 1200 s), groups 2 (process killed at 16.3 GB), conv2d (1,1,2,2)*(1,1,2,2) (process killed at 20.8 GB after 507 s; (1,1,3,3)*(1,1,2,2): no verdict in 1700 s / 16 GB in the study); kissat runs out of memory (17 GB), cadical gives no verdict in 600 s. '
 'Conv elements with symbolic or larger shapes are not claimed',
 'conv groups > 1 and bias at the shape level; conv shapes WITH padding only in the thorough tier (convnd makes the pad widths a heap-backed list: 220 s / 6.5 GB per query)',
 'linear / bilinear ELEMENTS (tensordot + bias pipeline: no verdict in 600 s at n=1,in=2,out=2 in the study); their result shapes are checked structurally',
 'softmax/softmin, batch/layer/instance/group_norm, pairwise_distance, cosine_similarity ELEMENTS: "within floating-point tolerance" over exp/sqrt/division is not decidable here; only result shapes (structural)',
 'pooling: padding and dilation (not implemented in nmtools), kernel larger than the input (PyTorch rejects), N,C > 1 only in two thorough queries; H,W > 5 at the element level',
 'the regions listed in PENDING_FINDINGS',
]
ASSUMPTIONS = ['avg_pool2d: uint8 data, so every float32 partial sum is an integer < 2^24 and exact; the reference is the nested-loop float32 sum in row-major window order followed by one float32 division',
               'PyTorch semantics are encoded in the harness from the documented formulas (pooling_output_shape incl. the ceil-mode rule, conv output size)']
CLAIM = dict(
 text='index::shape_pool2d / slice_pool2d equal PyTorch\'s output-size formula (incl. "the last ceil-mode window must start inside the input") and window slices for all N,C in 1..2, H,W in 1..7, kernel 1..3, '
      'stride 1..3, both ceil modes (symbolic). view::max_pool2d and avg_pool2d return PyTorch\'s shape and the max / mean over the window truncated at the border for every enumerated (H,W,kernel,stride,ceil) '
      'with all uint8 data (max_pool2d also with SIGNED int8 data: negative maxima) and the output index symbolic; the same holds for the pooling views evaluated THROUGH their extracted function composition (fn::apply(get_function_composition(v), operands), what the device kernels evaluate). The output shape of view::conv1d / conv2d through the real convnd pipeline equals floor((n + 2p - d(k-1) - 1)/s) + 1 for symbolic extents, kernel, '
      'stride, dilation (and padding in the thorough tier), batch 1..2 and every dilation pair (the two defects found here - batch > 1, dilation order - are repaired in /repo); sliding_window, expand and pad index maps equal their definitions; '
      'result shapes of softmax/softmin/linear/distances (and the norms in the thorough tier) are the input-derived shapes (structural). Thorough tier only: softmax / softmin ELEMENTS structurally (IEEE + - / and expf uninterpreted on both sides: the slice maximum is subtracted before exp, the right elements are summed in order, then divided) at constant tiny shapes; conv1d ELEMENTS equal the cross-correlation sum '
      '(mod 256, uint8 data and output index symbolic) for five constant tiny cases: plain, stride 2, two input channels, bias, dilation 2.',
 note='Pooling elements: quick = 10 tuples (the two 3x3-kernel tuples moved to the thorough tier: 360-490 s each) incl. overhanging ceil windows and the formerly failing (4,4),k=(2,1),s=(2,2),ceil case (now repaired in /repo: no exclusion needed); thorough = all H,W 1..5, k 1..3, s 1..3, ceil 0/1 (864 tuples). '
      'Trusted: clang-14 -O1 lowering, engine/ll2c.py, CBMC; validated per run by gate and witness assertions.')
