KERNELS = {'C17_pool': dict(src='kernels/C17_pool.cpp', flags=['-DNDEBUG'])}


def _p(h, w, kh, kw, sh, sw, ceil, n=1, c=1, **kw_):
    cells = n * c * h * w
    cfg = {'H': h, 'W': w, 'KH': kh, 'KW': kw, 'SH': sh, 'SW': sw, 'CEIL': ceil, '_unwindset': ['draw.0:34', 'k_fill_u8.0:%d' % (cells + 2), 'k_fill_u8.1:%d' % (cells + 2)]}
    if n != 1: cfg['N'] = n
    if c != 1: cfg['C'] = c
    cfg['_unwind'] = max(6, kh * kw + 2)
    cfg.update(kw_); return cfg


# quick: a dozen tuples incl. overhanging ceil-mode windows, the formerly failing ceil case (4,4,k=(2,1),s=(2,2)) and windows whose ceil start falls outside
QUICK = [_p(4, 4, 2, 2, 2, 2, 0), _p(4, 3, 2, 2, 1, 1, 0), _p(3, 3, 2, 2, 2, 2, 1), _p(4, 4, 2, 1, 2, 2, 1), _p(5, 5, 3, 3, 2, 2, 1), _p(5, 4, 2, 3, 3, 2, 1),
         _p(3, 5, 1, 2, 3, 3, 1), _p(2, 2, 2, 2, 1, 1, 0), _p(5, 3, 3, 1, 1, 2, 0), _p(4, 5, 3, 2, 3, 3, 1), _p(1, 1, 1, 1, 1, 1, 1), _p(3, 3, 3, 3, 3, 3, 1)]
ALL = [_p(h, w, kh, kw, s, s, c) for h in range(1, 6) for w in range(1, 6) for kh in range(1, 4) for kw in range(1, 4) for s in range(1, 4) for c in (0, 1) if kh <= h and kw <= w]
PB = 'hybrid uint8 (N,C,H,W) input (capacity 32); (H,W,kernel,stride,ceil_mode) are per-query constants (enumerated; listed per query), all element data and the output index symbolic'
HARNESSES = [
 dict(name='shape_pool2d', src='harnesses/C17.c', func='h_shape_pool2d', kernels=['C17_pool'], unwind=6,
      bounds='index::shape_pool2d + slice_pool2d, array<size_t,4> shape: N,C 1..2, H,W 1..MAXN, kernel 1..3 (<= input), stride 1..3, ceil_mode, output index: all symbolic',
      quick=[{'MAXN': 7}], thorough=[{'MAXN': 12}]),
 dict(name='max_pool2d', src='harnesses/C17.c', func='h_max_pool2d', kernels=['C17_pool'], unwind=6, bounds='view::max_pool2d; ' + PB, quick=QUICK, thorough=ALL + [_p(2, 2, 2, 1, 1, 1, 1, n=2, c=2), _p(3, 3, 2, 2, 2, 2, 1, n=1, c=2)]),
 dict(name='avg_pool2d', src='harnesses/C17.c', func='h_avg_pool2d', kernels=['C17_pool'], unwind=6, bounds='view::avg_pool2d (float32 result); ' + PB, quick=QUICK[:6], thorough=ALL),
]
OUTSIDE = []
ASSUMPTIONS = []
CLAIM = dict(text='', note='')
