import os
_RES = {0: 'old', 1: 'row', 2: 'col', 3: 'old4'}
KERNELS = {'C10_eval_%s' % n: dict(src='kernels/C10_eval.cpp', flags=['-DNDEBUG', '-DRES=%d' % r, '-DKSUFFIX=_%s' % n]) for r, n in _RES.items()}
# largest result size (elements) of a program for extents <= e: the evaluator's copy loop, vector fills and the
# harness' data loops run once per element; they get their own bound, every other loop keeps the small global bound
_GROW = {'tile': lambda e: 4*e*e, 'pad': lambda e: (e+2)*(e+2), 'flatten_pad': lambda e: (e+2)*(e+2), 'reshape_flip_pad': lambda e: (e+2)*(e+2)}
def _cells(prog, e): return _GROW.get(prog, lambda e: e*e)(e)
def _c(prog, e, res, **kw):
    n = _cells(prog, e) + 2
    c = {'MAXE': e, 'RES': res, '_unwind': 6,
         '_unwindset': ['in_data.0:%d' % (e*e + 2), 'k_fill_u32_%s.0:%d' % (_RES[res], max(n, 18)), 're:evaluator_t:%d' % n, 're:_M_default_append|_M_fill_insert|_M_realloc:%d' % n,
                        're:^ll_mem:%d' % (4*n + 2), 're:^k_(ev|out|cl|front)_:%d' % n]}
    c.update(kw); return c
B2 = ('hybrid 2-d operand (buffer capacity 16), extents 1..MAXE (or the per-query constant shape SH0xSH1), all element data, every argument and the result index symbolic; '
      'the result resolver RES is a per-query constant (0 eval\'s default eval_t, 1 row-major, 2 column-major); the program (a type) is enumerated')
def _h(fam, prog, res, quick, thorough, **kw):
    return dict(name='%s_%s_%s' % (fam, prog, _RES[res]), src='harnesses/C10.c', func='h_%s_%s' % (fam, prog), kernels=['C10_eval_%s' % _RES[res]],
                quick=[_c(prog, e, res, **k) for e, k in quick], thorough=[_c(prog, e, res, **k) for e, k in thorough], bounds=B2, **kw)
EV = ['transpose', 'transpose_none', 'reshape_b', 'reshape', 'flatten', 'flip', 'slice', 'tile', 'pad', 'invert', 'add_scalar', 'sum',
      'flip_transpose', 'reshape_flip', 'sum_transpose', 'add_scalar_transpose', 'transpose_add_scalar', 'flatten_pad', 'invert_flip', 'slice_transpose', 'transpose_slice', 'sum_add_scalar',
      'invert_flip_reshape', 'transpose_flip_slice', 'reshape_flip_pad']
OUTP = ['transpose', 'flip', 'invert', 'flip_transpose', 'sum']
CL = ['flip_transpose', 'invert_flip', 'slice_transpose', 'sum_transpose', 'transpose_add_scalar']
KF = {'KF_C10_EVAL_DEFAULT_RESOLVER_CAPACITY': 1}   # TEMPORARY exclusion of the pending finding below (see PENDING_FINDINGS)
def _tier(fam, prog, res, quick=(), thorough=(), **kw):
    return _h(fam, prog, res, [(e, dict(k)) for e, k in quick], [(e, dict(k)) for e, k in thorough], **kw)
S23 = {'SH0': 2, 'SH1': 3}; S32 = {'SH0': 3, 'SH1': 2}; S33 = {'SH0': 3, 'SH1': 3}
if os.environ.get('C10_ALL'):   # measurement mode: every candidate, optional, to find out which return a verdict
    es = [int(x) for x in os.environ['C10_ALL'].split(',')]
    rs = [int(x) for x in os.environ.get('C10_RES', '1,0,2').split(',')]
    HARNESSES = []
    for r in rs:
        for fam, progs in (('front', ['transpose', 'flip'] if r in (1, 2) else []), ('ev', EV), ('out', [p for p in OUTP if r in (1, 2) or p != 'sum']), ('cl', CL)):
            for p in progs:
                HARNESSES.append(_h(fam, p, r, [(e, {}) for e in es], [], optional=True, timeout=int(os.environ.get('C10_TMO', '300')), gate=False))
else:
    # (e, extra config): e = MAXE. Measured on the loaded machine (s / MB) in the trailing comments; quick = what returns in <= ~2 min.
    HARNESSES = [
     # ---- array::fn front ends vs the view
     _tier('front', 'transpose', 1, [(3, {})], [(4, {})]),                       # 55 s / 910
     _tier('front', 'transpose', 2, [], [(3, {})]),
     _tier('front', 'flip', 1, [(2, {})], [(3, {})]),                            # 38 s / 1271 (MAXE=2)
     # ---- eval(view), depth 1
     _tier('ev', 'transpose', 2, [(3, {})], [(4, {})]),                          # 40 s / 717
     _tier('ev', 'transpose', 1, [], [(3, {})]), _tier('ev', 'transpose', 0, [], [(3, {})]),
     _tier('ev', 'transpose_none', 0, [(3, {})], [(4, {})]),                     # 23 s / 892
     _tier('ev', 'transpose_none', 1, [], [(3, {})]), _tier('ev', 'transpose_none', 2, [], [(3, {})]),
     _tier('ev', 'flatten', 1, [(3, {})], [(4, {})]), _tier('ev', 'flatten', 2, [], [(3, {})]),       # 23 s / 849
     _tier('ev', 'flatten', 0, [], [(2, {})], mem_gb=6),                         # dynamic_ndarray result: 154 s / 5042 at MAXE=2
     _tier('ev', 'reshape', 0, [(2, {})], [(3, {}), (4, {})]), _tier('ev', 'reshape', 1, [], [(3, {})]),       # MAXE=2 44 s / 962; MAXE=3 57-104 s / 1556
     _tier('ev', 'invert', 1, [(3, {})], [(4, {})]), _tier('ev', 'invert', 0, [], [(3, {})]),         # 46 s / 851
     _tier('ev', 'flip', 1, [(2, {})], [(3, {})]), _tier('ev', 'flip', 0, [], [(3, {})]), _tier('ev', 'flip', 2, [], [(3, {})]),   # 28 s / 1249 (MAXE=2); vector result 115-168 s / 3.8 GB at MAXE=3
     _tier('ev', 'slice', 0, [(2, {})], [(3, {})]), _tier('ev', 'slice', 1, [], [(3, {})]),           # 43 s / 724 (MAXE=2)
     _tier('ev', 'reshape0', 0, [(2, {})], [(2, {})]), _tier('ev', 'reshape0', 1, [(2, {})], [(2, {})]),   # 0-d result of reshape to the empty shape
     _tier('ev', 'slice_empty', 0, [(3, {})], [(4, {})]), _tier('ev', 'slice_empty', 1, [(2, {})], [(3, {})]),   # zero-extent view: shapes only
     _tier('ev', 'add_scalar', 0, [(2, {})], [(3, {})]), _tier('ev', 'add_scalar', 1, [], [(2, {})]),  # 47 s / 2387 (MAXE=2)
     _tier('ev', 'sum', 1, [(2, {})], [(2, {})]),                                # 124 s / 2224 (MAXE=2); MAXE=3: no verdict in 300 s
     # results larger than the operand: default resolver with the open finding excluded (operand capacity 4 / 16), and unexcluded at extents where no overflow is possible
     _tier('ev', 'tile', 3, [(2, dict(KF, SH0=1, SH1=2))], [(2, dict(KF, SH0=2, SH1=1)), (2, dict(KF, SH0=2, SH1=2)), (2, KF)]),   # const (1,2): 36 s / 1104; symbolic MAXE=2: 305 s / 1446
     _tier('ev', 'pad', 3, [(2, dict(KF, SH0=1, SH1=2))], [(2, dict(KF, SH0=2, SH1=1)), (2, dict(KF, SH0=2, SH1=2)), (2, KF)]),    # const (1,2): 48 s / 1240; symbolic MAXE=2: 341 s / 1502
     _tier('ev', 'tile', 0, [], [(2, {}), (3, KF)]), _tier('ev', 'pad', 0, [], [(2, {}), (3, KF)]),  # MAXE=2: 102 / 160 s; MAXE=3 found the counterexample in 150 / 250 s
     # ---- depth 2 / 3
     _tier('ev', 'flip_transpose', 0, [(2, {})], [(3, {})]), _tier('ev', 'flip_transpose', 1, [], [(2, {})]),                     # 26 s / 707
     _tier('ev', 'invert_flip', 1, [(2, {})], [(3, {})]), _tier('ev', 'invert_flip', 0, [], [(3, {})]),                           # 43 s / 1257
     _tier('ev', 'reshape_flip', 0, [], [(3, {})]), _tier('ev', 'reshape_flip', 1, [], [(2, {})]),
     _tier('ev', 'add_scalar_transpose', 0, [], [(3, {})]), _tier('ev', 'transpose_add_scalar', 0, [], [(3, {})]),
     _tier('ev', 'slice_transpose', 0, [], [(3, {})]), _tier('ev', 'slice_transpose', 1, [], [(3, {})]),
     _tier('ev', 'transpose_slice', 0, [], [(3, {})]), _tier('ev', 'transpose_slice', 1, [], [(3, {})]),
     _tier('ev', 'invert_flip_reshape', 0, [], [(3, {})]), _tier('ev', 'invert_flip_reshape', 1, [], [(3, {})]),
     _tier('ev', 'transpose_flip_slice', 0, [(2, {})], [(3, {})]), _tier('ev', 'transpose_flip_slice', 1, [], [(3, {})]),         # 60 s / 825 (MAXE=2)
     # ---- caller-supplied output, prior content symbolic
     _tier('out', 'transpose', 1, [(2, {})], [(3, {})]), _tier('out', 'transpose', 0, [], [(3, {})]),                             # 30 s / 584
     _tier('out', 'invert', 0, [(2, {})], [(3, {})]), _tier('out', 'invert', 1, [], [(3, {})]),                                   # 20 s / 561
     _tier('out', 'flip', 0, [], [(3, {})]), _tier('out', 'flip', 1, [], [(2, {})]),
     _tier('out', 'flip_transpose', 0, [], [(3, {})]), _tier('out', 'flip_transpose', 1, [], [(2, {})]),
     _tier('out', 'sum', 1, [], [(3, {})]),                                      # 209 s / 3709
     # ---- composition law eval(outer(inner(a))) == eval(outer(eval(inner(a))))
     _tier('cl', 'flip_transpose', 0, [(2, {})], [(2, {})]), _tier('cl', 'flip_transpose', 1, [], [(2, {})]),                     # 98 s / 1427
     _tier('cl', 'invert_flip', 0, [], [(2, {}), (3, {})]), _tier('cl', 'invert_flip', 1, [], [(2, {})]),
     _tier('cl', 'slice_transpose', 0, [], [(2, {})]), _tier('cl', 'slice_transpose', 1, [], [(2, {})]),
     _tier('cl', 'transpose_add_scalar', 0, [], [(2, {})], mem_gb=6),
     # ---- attempted, no verdict so far (thorough only, optional: a timeout is recorded as no-verdict and not counted)
     _tier('ev', 'reshape_b', 1, [], [(2, {})], optional=True), _tier('ev', 'tile', 1, [], [(2, {})], optional=True), _tier('ev', 'pad', 1, [], [(2, {})], optional=True),
     _tier('ev', 'sum', 0, [], [(2, {})], optional=True), _tier('ev', 'sum_transpose', 1, [], [(2, {})], optional=True), _tier('ev', 'sum_add_scalar', 1, [], [(2, {})], optional=True),
     _tier('ev', 'flatten_pad', 1, [], [(2, {})], optional=True), _tier('ev', 'reshape_flip_pad', 0, [], [(2, {})], optional=True), _tier('cl', 'sum_transpose', 1, [], [(2, {})], optional=True),
    ]
# ---- element type of the evaluated array (view element type differs from the operand's): separate small TU, one per resolver
for _r, _n in ((0, 'old'), (1, 'row'), (2, 'col')):
    KERNELS['C10_etype_%s' % _n] = dict(src='kernels/C10_etype.cpp', flags=['-DNDEBUG', '-DRES=%d' % _r])
def _et(prog, res, quick, thorough, **kw):
    n = {0: 'old', 1: 'row', 2: 'col'}[res]
    US = ['h_etype.0:18', 'k_fill_u8.0:18', 're:evaluator_t:18']
    return dict(name='et_%s_%s' % (prog, n), src='harnesses/C10_etype.c', func='h_etype', kernels=['C10_etype_%s' % n], unwind=6,
                bounds='uint8 operand, unsigned scalar (view element type unsigned != operand element type), resolver %s; shape symbolic with extents 1..MAXE or the per-query constant SH0,SH1; '
                       'data, scalar and index symbolic; asserted: evaluated element == view element == (unsigned)a[i]+s and the evaluated array stores 4-byte elements' % n,
                quick=[dict(c, PROG=prog, RES=res, _unwindset=US) for c in quick], thorough=[dict(c, PROG=prog, RES=res, _unwindset=US) for c in thorough], **kw)
if not os.environ.get('C10_ALL'):
    HARNESSES += [
     _et('adds_h', 0, [{'MAXE': 2}], [{'MAXE': 3, '_mem_gb': 14}], mem_gb=8), _et('adds_h', 1, [], [{'MAXE': 2}], mem_gb=14), _et('adds_h', 2, [], [{'MAXE': 2}], mem_gb=14, optional=True),
     _et('adds_flip_h', 0, [], [{'MAXE': 2}], mem_gb=14), _et('adds_f', 0, [{'MAXE': 3}], [{'MAXE': 3}], mem_gb=6), _et('adds_f', 1, [{'MAXE': 3}], [{'MAXE': 3}]),
     # dynamic operand (the resolver branch "dynamic view over a dynamic array"): utl::vector-backed ndarray_t returns a verdict (850 s / 12 GB at the constant shape (1,2)): thorough tier;
     # std::vector-backed dynamic_ndarray: no verdict in 900 s (formula construction) - optional
     _et('adds_u', 0, [], [{'MAXE': 2, 'SH0': 1, 'SH1': 2}, {'MAXE': 2, 'SH0': 2, 'SH1': 1}], mem_gb=14, timeout=3000),
     _et('add_fu', 0, [], [{'MAXE': 2, 'SH0': 1, 'SH1': 2}], mem_gb=14, timeout=3000, optional=True),   # fixed unsigned lhs + utl-dynamic uint8 rhs: the binary branch of the default resolver
     _et('adds_d', 0, [], [{'MAXE': 2, 'SH0': 1, 'SH1': 2}], mem_gb=14, timeout=1800, optional=True),
    ]
# ---- "front" family: array::fn(all optional arguments) vs view::fn(same arguments) vs NumPy (kernels/C10_front.cpp, harnesses/C10_front.c); one TU per part
_FPARTS = (1, 2, 3, 4, 5, 6, 7, 8)
for _p in _FPARTS:
    KERNELS['C10_front_%d' % _p] = dict(src='kernels/C10_front.cpp', flags=['-DNDEBUG', '-DFR_PART=%d' % _p])
def _fr(name, part, quick, thorough=None, cells=8, **kw):
    n = cells + 2
    US = ['in_data8.0:%d' % n, 'in_datap.0:%d' % n, 'in_data32.0:%d' % n, 'k_fill_u8.0:%d' % n, 'k_fill_u32.0:%d' % n, 're:evaluator_t:%d' % n,
          're:_M_default_append|_M_fill_insert|_M_realloc:%d' % n, 're:^ll_mem:%d' % (4*n + 2), 're:^k_front_:%d' % n]
    def cf(c): d = {'FR_PART': part, 'MAXE': 2, '_unwind': 6, '_unwindset': US}; d.update(c); return d
    fe = name.replace('_reduce', '.reduce').replace('_accumulate', '.accumulate').replace('_outer', '.outer') if part in (1, 6) else name
    return dict(name='front_' + name, src='harnesses/C10_front.c', func='h_front_' + name, kernels=['C10_front_%d' % part],
                bounds='array::%s with ALL optional value arguments given vs view:: with the same arguments vs a NumPy reference in the harness; hybrid operand(s) with extents 1..2: shape symbolic (no SH0), or the per-query '
                       'constant shape SH0 x SH1 (second operand extent SHM) and per-query constant axis AXIS where the all-symbolic query does not return in the budget (then in the thorough tier); element data, the other run-time arguments '
                       '(initial, shifts, widths, indices, ...) and the result index symbolic; dtype / keepdims are compile-time arguments; product harnesses: cells with PBITS symbolic low bits; '
                       'result resolver: the front end\'s default (RowMajorResolver)' % fe,
                quick=[cf(c) for c in quick], thorough=[cf(c) for c in (thorough if thorough is not None else quick)], **kw)
E2 = {}                                   # everything symbolic, extents 1..2
E2T = {'_mem_gb': 12, '_timeout': 1800}   # the same in the thorough tier, with its budget
def CA(*a): return {'CA%d' % i: (a[i] if i < len(a) else 0) for i in range(5)}   # per-query constant size-determining arguments
def K(s0, s1, **kw): d = {'SH0': s0, 'SH1': s1}; d.update(kw); return d
RED = [K(2, 2, AXIS=-1)]            # reductions / scans: per-query constant shape and axis (all-symbolic: 130-250 s, thorough)
REDT = [K(2, 1, AXIS=0), E2T]
PROD = [K(2, 2, AXIS=-1, PBITS=2)]
PRODT = [K(2, 1, AXIS=0, PBITS=2), K(2, 2, PBITS=2)]
KFC = {'KF_C10_FRONT_CONCATENATE_NEGAXIS': 1}   # TEMPORARY exclusions of pending findings (see PENDING_FINDINGS)
KFS = {'KF_C10_FRONT_STACK_NEGAXIS': 1}
if not os.environ.get('C10_ALL'):
    # quick: one or two cheap configurations per front end (measured 4-65 s each on the loaded machine, comments: s); thorough: the other enumerated shapes and the all-symbolic query
    HARNESSES += [
     # ufunc members
     _fr('add_reduce', 1, RED, REDT), _fr('add_accumulate', 1, RED, REDT), _fr('add_outer', 1, [K(2, 2, SHM=2)], [E2]),                       # 8 / 8 / 5; symbolic add_outer 34-48
     _fr('multiply_reduce', 1, PROD, PRODT), _fr('multiply_accumulate', 1, PROD, [K(2, 2, AXIS=-2, PBITS=8), K(2, 1, AXIS=0, PBITS=2), K(2, 2, PBITS=2)]),   # 8 / 7
     _fr('subtract', 1, [K(2, 1, SHM=2), K(2, 2, SHM=1)], [K(2, 2, SHM=2), dict(E2T)], mem_gb=8),                                           # 19 each; symbolic 240 s / 9 GB
     # reductions / scans
     _fr('sum', 2, RED, REDT), _fr('prod', 2, PROD, PRODT), _fr('cumsum', 2, RED, REDT), _fr('cumprod', 2, PROD, PRODT),                    # 6-9 each
     _fr('amax', 2, RED, REDT), _fr('amin', 2, RED, REDT), _fr('mean', 2, [K(2, 1, AXIS=0)], [K(2, 2, AXIS=-1), E2T]),                      # 7 / 7 / 21
     # rearranging / replicating / selecting
     _fr('reshape', 3, [K(2, 2)], [E2]), _fr('flatten', 3, [E2]), _fr('moveaxis', 3, [K(1, 2, SH2=2)], [K(2, 2, SH2=1), E2T], cells=8), _fr('swapaxes', 3, [E2]),   # reshape symbolic 64; 15; 45; 21
     _fr('expand_dims', 3, [K(1, 2)], [K(2, 2), E2T]),                                                                                     # 24 (2x2: 49)
     _fr('squeeze', 3, [K(1, 2), K(2, 1), K(2, 2), K(1, 1)], [E2T]), _fr('tile', 3, [K(1, 2)], [K(2, 1), K(2, 2), E2T], cells=16), _fr('repeat', 3, [K(1, 2)], [K(2, 2), E2T]),   # 4 each; 26; 27
     _fr('roll', 3, [K(2, 2)], [E2]), _fr('take', 3, [K(1, 2)], [K(2, 2), E2T]),                                                           # roll symbolic 40; take 17
     # joining / windowing / generating / linear algebra
     _fr('concatenate', 4, [K(2, 2, SHM=2, **KFC), K(1, 2, SHM=2, **KFC)], [dict(E2T, **KFC)]),                                            # 9-14
     _fr('stack', 5, [K(2, 2, AXIS=1, **KFS), K(1, 2, AXIS=2, **KFS), K(2, 1, AXIS=0, **KFS)], [K(2, 2, **KFS), dict(E2T, **KFS)]),        # 5 each; symbolic axis: 68-83 s per constant shape
     _fr('pad', 4, [K(1, 2, **CA(0, 1, 1, 0))], [K(2, 2, **CA(1, 0, 0, 1)), E2T], cells=9, mem_gb=6),                                       # 27 (2x2: 41-74 s, 3.8 GB)
     _fr('slice', 4, [K(2, 2, **CA(0, 2, 2, 1, 2)), K(2, 2, **CA(1, 2, 1, 0, 2))], [E2T]), _fr('broadcast_to', 4, [K(2, 1, **CA(1, 2, 2))], [K(1, 2, **CA(2, 2, 2)), E2T]),   # 14-18; 20 (36)
     _fr('where', 4, [K(1, 2)], [K(2, 2), E2T]), _fr('diagonal', 4, [E2]), _fr('tril', 4, [K(1, 2)], [K(2, 2), E2T]), _fr('triu', 4, [K(2, 1)], [K(2, 2), E2T]),   # 14; 9; 12; 11
     _fr('full_like', 4, [K(1, 2)], [K(2, 2), E2T]), _fr('zeros_like', 4, [K(2, 1)], [E2T]),                                               # 10; 11
     _fr('arange', 4, [CA(-2, 3, 2)], [CA(2, -3, -1), dict(E2T)]), _fr('eye', 4, [K(1, 2)], [K(2, 2), E2T]),                                # 20; 18
     _fr('matmul_sl', 8, [K(2, 2, SHM=2)], [K(1, 2, SHM=1), K(2, 2, SHM=2)]),   # matmul with array/slice.hpp in the same TU (ADL)
     _fr('matmul', 5, [K(2, 2, SHM=2)], [K(1, 2, SHM=1), K(2, 2, SHM=1), K(2, 1, SHM=2), dict(E2T)]), _fr('outer', 4, [K(1, 2, SHM=2)], [K(2, 2, SHM=2), E2T]),   # 20; (2x2: 41)
     # members of the other integer binary ufuncs that have them (4-11 s each)
    ] + [_fr('%s_%s' % (u, m), 6, (RED if m != 'outer' else [K(2, 2, SHM=2)]) if 'shift' not in u else ([dict(c, PBITS=3) for c in RED] if m != 'outer' else [K(2, 2, SHM=2, PBITS=3)]),
             [dict(K(2, 1, AXIS=0), PBITS=3), dict(E2T, PBITS=3)])
         for u in ('subtract', 'maximum', 'minimum', 'left_shift', 'right_shift') for m in ('reduce', 'accumulate', 'outer')] + [_fr('multiply_outer', 6, [K(2, 2, SHM=2)], [E2T])] + [
     # further front ends with optional arguments
     _fr('tri', 7, [K(2, 2)], [K(1, 2), E2T]),                                                                                              # 20
     # attempted, no verdict (thorough only, optional): diagflat out of memory at 6 GB (std::vector result of (n+|k|)^2 cells) at constant shape and k; var (float pipeline mean/subtract/square/sum/divide) timeout 600 s at constant shape and axis
     _fr('diagflat', 7, [], [K(1, 2, **CA(1)), K(2, 1, **CA(-1))], cells=9, optional=True, mem_gb=12), _fr('var', 7, [], [K(2, 2, AXIS=-1)], optional=True, mem_gb=8)]
_WHAT_KF = ('array::eval(view) with its DEFAULT resolver template argument (eval_t) chooses the result buffer from the OPERAND type: over a hybrid operand of capacity C the result is a hybrid array of '
            'capacity C even for views that are larger than their operand (tile, pad). The refused resize leaves the result at its default shape, the evaluator returns early (shape mismatch: '
            'nmtools_verif_eval_shape_mismatch and the capacity hook fire) and eval returns an unwritten array of shape (1,1) instead of the view\'s shape. array::tile / array::pad (RowMajorResolver) are not affected. ')
PENDING_FINDINGS = [
 dict(id='C10-eval-default-resolver-capacity', harness='ev_tile_old', exclude_define='KF_C10_EVAL_DEFAULT_RESOLVER_CAPACITY', witness_config={'MAXE': 3, 'RES': 0},
      witness_inputs=['0x3', '0x3', '0x0', '0x0', '0x0', '0x0', '0x0', '0x0', '0x0', '0x0', '0x0', '0x2', '0x1', '0x0', '0x1'],
      what=_WHAT_KF + 'Witness: capacity 16, a of shape (3,3), tile reps (2,1): the view has shape (6,3) = 18 elements.'),
 dict(id='C10-eval-default-resolver-capacity', harness='ev_pad_old', exclude_define='KF_C10_EVAL_DEFAULT_RESOLVER_CAPACITY', witness_config={'MAXE': 3, 'RES': 0},
      witness_inputs=['0x3', '0x3', '0x0', '0x0', '0x0', '0x0', '0x0', '0x1', '0x0', '0x0', '0x0', '0x1', '0x1', '0x1', '0x0', '0x0', '0x0', '0x2'],
      what=_WHAT_KF + 'Witness: capacity 16, a of shape (3,3) padded by (1,1,1,0): shape (5,4) = 20 elements.'),
 dict(id='C10-eval-default-resolver-capacity', harness='ev_tile_old4', exclude_define='KF_C10_EVAL_DEFAULT_RESOLVER_CAPACITY', witness_config={'MAXE': 2, 'RES': 3, 'SH0': 1, 'SH1': 2},
      witness_inputs=['0x1', '0x2', '0x0', '0x0', '0x0', '0x0', '0x2', '0x2', '0x0', '0x1'],
      what=_WHAT_KF + 'Witness: capacity 4, a of shape (1,2), tile reps (2,2): the view has shape (2,4) = 8 elements (replayed with the constant shape SH0=1,SH1=2 whatever shape the query itself fixes: the finding is the call site, every operand shape whose view outgrows the capacity shows it).'),
 dict(id='C10-eval-default-resolver-capacity', harness='ev_pad_old4', exclude_define='KF_C10_EVAL_DEFAULT_RESOLVER_CAPACITY', witness_config={'MAXE': 2, 'RES': 3, 'SH0': 1, 'SH1': 2},
      witness_inputs=['0x1', '0x2', '0x0', '0x0', '0x0', '0x0', '0x1', '0x1', '0x1', '0x0', '0x0', '0x2', '0x0'],
      what=_WHAT_KF + 'Witness: capacity 4, a of shape (1,2) padded by (1,1,1,0): shape (3,3) = 9 elements (replayed with the constant shape SH0=1,SH1=2 whatever shape the query itself fixes: the finding is the call site, every operand shape whose view outgrows the capacity shows it).'),
]
_WHAT_NEG = ('array::%s(a, b, axis) with a NEGATIVE axis evaluates exactly what view::%s builds, and that view ignores a negative axis (same defect as the open finding C04-concatenate-negative-axis: '
             'index::shape_concatenate / index::concatenate compare the loop counter with the raw axis): eager and lazy agree with each other but not with NumPy. ')
PENDING_FINDINGS += [
 dict(id='C10-front-concatenate-negative-axis', harness='front_concatenate', exclude_define='KF_C10_FRONT_CONCATENATE_NEGAXIS', witness_config={'FR_PART': 4, 'MAXE': 2, 'SH0': 2, 'SH1': 2, 'SHM': 2},
      witness_inputs=['0x2', '0x2', '0x1', '0x2', '0x3', '0x4', '0x2', '0x2', '0x5', '0x6', '0x7', '0x8', '0xffffffffffffffff', '0x0', '0x3', '0x0', '0x0'],
      what=_WHAT_NEG % ('concatenate', 'concatenate') + 'Witness (inputs in harness order: a.shape, a data, b.shape, b data, axis, index): a = [[1,2],[3,4]], b = [[5,6],[7,8]], axis = -1: NumPy shape (2,4), nmtools (view and evaluated array) reports another shape; index (0,3) is outside it.'),
 dict(id='C10-front-concatenate-negative-axis', harness='front_stack', exclude_define='KF_C10_FRONT_STACK_NEGAXIS', witness_config={'FR_PART': 5, 'MAXE': 2, 'SH0': 2, 'SH1': 2},
      witness_inputs=['0x2', '0x2', '0x1', '0x2', '0x3', '0x4', '0x5', '0x6', '0x7', '0x8', '0xffffffffffffffff', '0x1', '0x1', '0x1', '0x0'],
      what=_WHAT_NEG % ('stack', 'stack') + 'Witness: a = [[1,2],[3,4]], b = [[5,6],[7,8]], axis = -1: NumPy shape (2,2,2) with element (1,1,1) == 8.'),
 # not an input region (no exclusion macro): depends on which headers share a translation unit
 dict(id='C10-front-adl-eager-hijack', harness=None, exclude_define=None, witness_inputs=[],
      what='view::matmul_t::view_at calls apply_slice UNQUALIFIED on its ndarray operands (view/matmul.hpp:416-425). When nmtools/array/array/slice.hpp is included in the same translation unit, argument-dependent lookup '
           '(operands live in nmtools::array) selects the EAGER nmtools::array::apply_slice instead of view::apply_slice: view::matmul(a,b)(i,j) and array::matmul(a,b) then index an empty std::vector '
           '(NMV-HOOK index 0 >= 0, std::out_of_range -> terminate) for every input, e.g. two hybrid (1,1) uint8 operands. Reproduce: #include "nmtools/array/array/slice.hpp" before "nmtools/array/array/matmul.hpp", '
           'call nmtools::array::matmul on two ndarray_t operands. Same root cause at compile time: view::stack calls concatenate unqualified, so a TU that includes array/concatenate.hpp and calls view::stack / array::stack '
           'does not compile ("call to concatenate is ambiguous"). The kernels of stack and matmul therefore live in their own TU (C10_front_5).'),
]
OUTSIDE = [
 'PROGRAMS ATTEMPTED AND THEIR OUTCOME (hybrid 2-d operand; s = wall seconds on the loaded machine; res = old (eval default eval_t) / row / col):',
 ' depth 1: transpose(axes) holds MAXE=3 all res (40-71 s); transpose(None) holds MAXE=3 all res (20-40 s); flatten holds MAXE=3 row/col (23 s), old (dynamic_ndarray result) only MAXE=2 (154 s, 5 GB); '
 'reshape(2-entry target incl. -1) holds MAXE=3 old/row (57-69 s); reshape(bounded-dim target of 1..4 entries) NO VERDICT (out of memory at 6 GB during propositional reduction, also at MAXE=2 and at the constant shape 2x3: 8.4M variables / 41M clauses); '
 'flip(axis) holds MAXE=3 old 38-73 s, row/col (std::vector result) 115-168 s / 3.8 GB; slice holds MAXE=3 old 89 s, row/col 180-200 s; unary ufunc invert holds MAXE=3 (45 s); '
 'ufunc with scalar add(a,s) holds MAXE=3 old (140 s, 3.9 GB), row only MAXE=2 (66 s) or constant shape (42 s) - MAXE=3 out of memory; sum(axis) holds MAXE=2 row (124 s), MAXE=3 only with a caller-supplied output (209 s), old (dynamic result) out of memory; '
 'tile / pad: old holds with the pending finding excluded (operand capacity 4: 36-48 s per constant shape, 305-341 s symbolic MAXE=2) and unexcluded at MAXE=2 with capacity 16 (102 / 160 s); row/col (std::vector result that grows) NO VERDICT (out of memory at MAXE=2)',
 ' depth 2: flip(transpose) holds old MAXE=3 117 s, row MAXE=2 43 s; invert(flip) holds MAXE=3 old 73 s / row 166 s; reshape(flip) holds old MAXE=3 190 s, row MAXE=2 101 s; add_scalar(transpose) / transpose(add_scalar) hold old MAXE=3 67 / 163 s, row MAXE=2 104-112 s; '
 'slice(transpose) / transpose(slice) hold MAXE=3 old 96-101 s, row 248-255 s; sum(transpose), sum(add(a,s)) NO VERDICT (timeout 200-300 s at MAXE=2 and 3); flatten(pad) NO VERDICT (out of memory)',
 ' depth 3: invert(flip(reshape)) holds MAXE=3 old 176 s / row 250 s; transpose(flip(slice)) holds MAXE=3 old 232 s / row 272 s, MAXE=2 60 s; reshape(flip(pad)) NO VERDICT (timeout / out of memory)',
 ' caller-supplied output: transpose, invert hold MAXE=3 (38-55 s); flip, flip(transpose) hold old MAXE=3 (75-92 s), row MAXE=2 (99-110 s); sum holds row MAXE=3 (209 s)',
 ' composition law: flip(transpose), invert(flip), slice(transpose) hold MAXE=2 old and row (94-146 s), invert(flip) old also MAXE=3 (224 s); transpose(add_scalar) holds old MAXE=2 (175 s, 4.3 GB), row out of memory; sum(transpose) NO VERDICT (timeout)',
 'multi-operand broadcast compositions such as sum(transpose(a)*b, axis): not attempted here - a 3-operand broadcast composition gave no verdict in 900 s in the feasibility study and a single binary broadcast ufunc already needs 2.2 GB (C14)',
 'ufuncs with multiplication (square, multiply): equality of two multiplier circuits over symbolically selected elements did not return in 300 s (ev_square at MAXE=3, all resolvers); invert / add are used instead',
 'view::flip does not accept a maybe-view operand (compile error in index/flip.hpp): in depth-3 chains the inner maybe view (reshape, pad) is unwrapped by the kernel',
 'operands other than the hybrid 2-d kind as eval input (fixed-shape, clipped, dynamic operands; their static traits are C11); result kinds reached: hybrid (bounded buffer + fixed dim), std::vector buffer + fixed dim, bounded buffer + clipped 1-d shape (flatten), dynamic_ndarray (old resolver: flatten, sum)',
 'a caller-supplied output of the WRONG shape (the evaluator returns silently): the property only speaks about outputs of the right shape; the early return itself is an obligation (NMV-HOOK eval_shape_mismatch) in every query',
 'extents > 4, dims other than 2 for the operand, operations of C16/C17 (linear algebra, pooling) as programs',
 'front family (array::fn wrappers): covered are the front ends listed in the claim, each with all its optional VALUE arguments given and the default (row-major) resolver; not covered: the context / output / resolver arguments of the wrappers '
 '(a front end over a maybe view - broadcasting ufuncs, pad, reshape ... - does not even compile with an output argument: optional<void>), casting::same_kind overloads, the float-only front ends '
 '(stddev, vector_norm, softmax, linspace, activations, fmax/fmin/fmod/power members), trace, compress, expand, resize, split, sliding_window, kron, pooling/conv front ends; clip with scalar bounds over a hybrid operand does not compile; '
 'var(axis, dtype, ddof, keepdims) and diagflat(k) have kernels and harnesses (native gate passes) but no solver verdict: var timeout 600 s at a constant shape and axis, diagflat out of memory at 6 GB (thorough tier, optional); extents > 2; '
 'tile, repeat, take: the front end\'s own result (std::vector buffer; tile: out of memory at 6 GB, repeat / take 70-135 s) is replaced by a caller-supplied hybrid output passed through the wrapper\'s output argument; '
 'pad widths, slice bounds, broadcast_to target, arange bounds (they size a std::vector result) are per-query constants in the quick tier (symbolic: out of memory at 6 GB even at a constant operand shape); '
 'all-symbolic shape+axis queries of the reductions / scans and of the std::vector-result front ends (tile, pad, take, repeat, where, broadcast_to, slice, subtract, outer, matmul) are in the thorough tier only '
 '(130-250 s / 3-9 GB, several out of memory at 6 GB); products: cells restricted to PBITS symbolic low bits (multiply.reduce with full 8-bit cells under a 16-bit initial value gave no verdict in 600 s even at a constant shape, axis and index; PBITS=2 returns in 8-18 s); a translation unit that includes array/slice.hpp together with array/matmul.hpp, or array/concatenate.hpp together with array/stack.hpp, is broken by unqualified calls (pending finding C10-front-adl-eager-hijack): stack and matmul are built in their own TU',
]
ASSUMPTIONS = [
 'oracle is differential: eager result vs lazy view computed in the same kernel call; that the lazy view equals NumPy is C03-C08 (only the lazy SHAPE is pinned to NumPy here, to make the symbolic index range over the whole result)',
 'RES=1/2 pass RowMajorResolver / ColumnMajorResolver exactly as the array::fn front ends do (front_* harnesses call array::transpose / array::flip themselves)',
 'slices with empty selections are excluded from the argument domain (open finding of C05; only the index domain depends on it)',
 'pending finding excluded where stated: results larger than the operand capacity under eval\'s default resolver (KF_C10_EVAL_DEFAULT_RESOLVER_CAPACITY)',
 'front family: the oracle is eager == lazy AND both == a NumPy reference written in the harness; where nmtools documents C++ semantics instead of NumPy\'s the reference follows nmtools (np.outer on uint8 operands: the element is the C++ product, an int - element types are C07\'s subject); '
 'negative axes of concatenate / stack are excluded (pending finding, same defect as C04-concatenate-negative-axis); slices with empty selections are excluded as above',
]
CLAIM = dict(
 text='For every program of the list that returned a verdict (see outside_the_claim for the complete attempt log) - depth-1 transpose, reshape, flatten, flip, slice, tile, pad, unary ufunc, ufunc with scalar, sum over an axis; '
      'depth-2/3 chains of them - over a hybrid 2-d operand with shape, data, every argument and the result index symbolic, the solver shows: the array returned by eval(view) (and by the array::transpose / array::flip front ends) '
      'exists, has the view\'s dim and shape and at every index the view\'s element, for the default, the row-major and the column-major result resolver; a caller-supplied output of the right shape with symbolic prior content '
      'ends up equal to the view at every index; each eager front end array::fn called with ALL its optional value arguments (axis incl. negative, dtype, initial, keepdims, offsets, fill values ...) returns an array of NumPy\'s dim, shape, element size and element, equal to view::fn of the same arguments (add / multiply / subtract / maximum / minimum / left_shift / right_shift .reduce, .accumulate, .outer; subtract with broadcasting; sum, prod, cumsum, cumprod, amax, amin, mean (shape and element size); reshape, flatten, moveaxis, swapaxes, expand_dims, squeeze, tile, repeat, roll, take, concatenate, stack, pad, slice, broadcast_to, where, diagonal, tril, triu, full_like, zeros_like, arange, eye, tri, matmul, outer; operands of extents 1..2), so a wrapper that drops or reorders one of its arguments is a counterexample; evaluating outer(inner(a)) once equals evaluating inner first and applying outer to the concrete result; the evaluated array stores the element type of the VIEW when it differs from that of the operand (uint8 operand + unsigned scalar: hybrid and fixed operands; utl-dynamic operand in the thorough tier); a zero-extent view (a[b:b, c:d]) and a 0-d result (reshape of one element to ()) are evaluated to arrays of exactly that shape; and the evaluator never returns early on a shape mismatch nor asks a bounded '
      'buffer to exceed its capacity - except for the pending finding (default resolver, results larger than the operand, tile/pad), whose region is excluded and whose witness is replayed.',
 note='Bounded: extents 1..2/3 (quick) and 1..3/4 (thorough) per program as listed in each query; programs are enumerated (types). Programs without a verdict are listed, not claimed. '
      'Trusted: clang-14 -O1 lowering, engine/ll2c.py, CBMC; validated per run by gate and witness assertions.')
