_RES = {0: 'old', 1: 'row', 2: 'col'}
KERNELS = {'C10_eval_%s' % n: dict(src='kernels/C10_eval.cpp', flags=['-DNDEBUG', '-DRES=%d' % r, '-DKSUFFIX=_%s' % n]) for r, n in _RES.items()}
def _c(e, res, **kw):
    c = {'MAXE': e, 'RES': res, '_unwindset': ['in_data.0:%d' % (e*e + 2), 'k_fill_u32_%s.0:%d' % (_RES[res], e*e + 2)]}; c.update(kw); return c
B2 = 'hybrid 2-d operand (buffer capacity 16), extents 1..MAXE, all element data, every argument and the result index symbolic; the result resolver RES is a per-query constant (0 default eval_t, 1 row-major, 2 column-major)'
# the evaluator's copy loop runs once per result element: the global unwind bound is (largest result size) + 2
_CELLS = {'ev_tile': lambda e: 4*e*e, 'ev_pad': lambda e: (e+2)*(e+2)}
def _h(prog, res, **kw):
    cells = _CELLS.get(prog, lambda e: e*e)
    return dict(name='%s_%s' % (prog, _RES[res]), src='harnesses/C10.c', func='h_' + prog, kernels=['C10_eval_%s' % _RES[res]],
                quick=[_c(3, res, _unwind=cells(3) + 2)], thorough=[_c(4, res, _unwind=cells(4) + 2)], bounds=B2, **kw)
PROGRAMS = ['ev_transpose', 'ev_transpose_none', 'ev_reshape', 'ev_flatten', 'ev_flip', 'ev_slice', 'ev_tile', 'ev_pad', 'ev_square', 'ev_add_scalar', 'ev_sum']
HARNESSES = [_h('front_transpose', 1), _h('front_transpose', 2)] + [_h(p, r) for p in PROGRAMS for r in (1, 0, 2)]
OUTSIDE = []
ASSUMPTIONS = []
CLAIM = dict(text='', note='')
