import os
_RES = {0: 'old', 1: 'row', 2: 'col', 3: 'old4'}
KERNELS = {'C10_eval_%s' % n: dict(src='kernels/C10_eval.cpp', flags=['-DNDEBUG', '-DRES=%d' % r, '-DKSUFFIX=_%s' % n]) for r, n in _RES.items()}
# largest result size (elements) of a program for extents <= e: the evaluator's copy loop, vector fills and the
# harness' data loops run once per element; they get their own bound, every other loop keeps the small global bound
_GROW = {'tile': lambda e: 4*e*e, 'pad': lambda e: (e+2)*(e+2), 'flatten_pad': lambda e: (e+2)*(e+2), 'reshape_flip_pad': lambda e: (e+2)*(e+2)}
def _cells(prog, e): return _GROW.get(prog, lambda e: e*e)(e)
def _c(prog, e, res, **kw):
    n = _cells(prog, e) + 2
    c = {'MAXE': e, 'RES': res, '_unwind': 6,
         '_unwindset': ['in_data.0:%d' % (e*e + 2), 'k_fill_u32_%s.0:%d' % (_RES[res], max(n, 18)), 're:evaluator_t:%d' % n, 're:_M_default_append|_M_fill_insert|_M_realloc:%d' % n,
                        're:^ll_mem:%d' % (4*n + 2), 're:^k_(ev|out|cl|front)_:%d' % n]}
    c.update(kw); return c
B2 = ('hybrid 2-d operand (buffer capacity 16), extents 1..MAXE (or the per-query constant shape SH0xSH1), all element data, every argument and the result index symbolic; '
      'the result resolver RES is a per-query constant (0 eval\'s default eval_t, 1 row-major, 2 column-major); the program (a type) is enumerated')
def _h(fam, prog, res, quick, thorough, **kw):
    return dict(name='%s_%s_%s' % (fam, prog, _RES[res]), src='harnesses/C10.c', func='h_%s_%s' % (fam, prog), kernels=['C10_eval_%s' % _RES[res]],
                quick=[_c(prog, e, res, **k) for e, k in quick], thorough=[_c(prog, e, res, **k) for e, k in thorough], bounds=B2, **kw)
EV = ['transpose', 'transpose_none', 'reshape_b', 'reshape', 'flatten', 'flip', 'slice', 'tile', 'pad', 'invert', 'add_scalar', 'sum',
      'flip_transpose', 'reshape_flip', 'sum_transpose', 'add_scalar_transpose', 'transpose_add_scalar', 'flatten_pad', 'invert_flip', 'slice_transpose', 'transpose_slice', 'sum_add_scalar',
      'invert_flip_reshape', 'transpose_flip_slice', 'reshape_flip_pad']
OUTP = ['transpose', 'flip', 'invert', 'flip_transpose', 'sum']
CL = ['flip_transpose', 'invert_flip', 'slice_transpose', 'sum_transpose', 'transpose_add_scalar']
if os.environ.get('C10_ALL'):   # measurement mode: every candidate, optional, to find out which return a verdict
    es = [int(x) for x in os.environ['C10_ALL'].split(',')]
    rs = [int(x) for x in os.environ.get('C10_RES', '1,0,2').split(',')]
    HARNESSES = []
    for r in rs:
        for fam, progs in (('front', ['transpose', 'flip'] if r in (1, 2) else []), ('ev', EV), ('out', [p for p in OUTP if r in (1, 2) or p != 'sum']), ('cl', CL)):
            for p in progs:
                HARNESSES.append(_h(fam, p, r, [(e, {}) for e in es], [], optional=True, timeout=int(os.environ.get('C10_TMO', '300')), gate=False))
else:
    HARNESSES = []
OUTSIDE = []
ASSUMPTIONS = []
CLAIM = dict(text='', note='')
