import os
_RES = {0: 'old', 1: 'row', 2: 'col', 3: 'old4'}
KERNELS = {'C10_eval_%s' % n: dict(src='kernels/C10_eval.cpp', flags=['-DNDEBUG', '-DRES=%d' % r, '-DKSUFFIX=_%s' % n]) for r, n in _RES.items()}
# largest result size (elements) of a program for extents <= e: the evaluator's copy loop, vector fills and the
# harness' data loops run once per element; they get their own bound, every other loop keeps the small global bound
_GROW = {'tile': lambda e: 4*e*e, 'pad': lambda e: (e+2)*(e+2), 'flatten_pad': lambda e: (e+2)*(e+2), 'reshape_flip_pad': lambda e: (e+2)*(e+2)}
def _cells(prog, e): return _GROW.get(prog, lambda e: e*e)(e)
def _c(prog, e, res, **kw):
    n = _cells(prog, e) + 2
    c = {'MAXE': e, 'RES': res, '_unwind': 6,
         '_unwindset': ['in_data.0:%d' % (e*e + 2), 'k_fill_u32_%s.0:%d' % (_RES[res], max(n, 18)), 're:evaluator_t:%d' % n, 're:_M_default_append|_M_fill_insert|_M_realloc:%d' % n,
                        're:^ll_mem:%d' % (4*n + 2), 're:^k_(ev|out|cl|front)_:%d' % n]}
    c.update(kw); return c
B2 = ('hybrid 2-d operand (buffer capacity 16), extents 1..MAXE (or the per-query constant shape SH0xSH1), all element data, every argument and the result index symbolic; '
      'the result resolver RES is a per-query constant (0 eval\'s default eval_t, 1 row-major, 2 column-major); the program (a type) is enumerated')
def _h(fam, prog, res, quick, thorough, **kw):
    return dict(name='%s_%s_%s' % (fam, prog, _RES[res]), src='harnesses/C10.c', func='h_%s_%s' % (fam, prog), kernels=['C10_eval_%s' % _RES[res]],
                quick=[_c(prog, e, res, **k) for e, k in quick], thorough=[_c(prog, e, res, **k) for e, k in thorough], bounds=B2, **kw)
EV = ['transpose', 'transpose_none', 'reshape_b', 'reshape', 'flatten', 'flip', 'slice', 'tile', 'pad', 'invert', 'add_scalar', 'sum',
      'flip_transpose', 'reshape_flip', 'sum_transpose', 'add_scalar_transpose', 'transpose_add_scalar', 'flatten_pad', 'invert_flip', 'slice_transpose', 'transpose_slice', 'sum_add_scalar',
      'invert_flip_reshape', 'transpose_flip_slice', 'reshape_flip_pad']
OUTP = ['transpose', 'flip', 'invert', 'flip_transpose', 'sum']
CL = ['flip_transpose', 'invert_flip', 'slice_transpose', 'sum_transpose', 'transpose_add_scalar']
KF = {'KF_C10_EVAL_DEFAULT_RESOLVER_CAPACITY': 1}   # TEMPORARY exclusion of the pending finding below (see PENDING_FINDINGS)
def _tier(fam, prog, res, quick=(), thorough=(), **kw):
    return _h(fam, prog, res, [(e, dict(k)) for e, k in quick], [(e, dict(k)) for e, k in thorough], **kw)
S23 = {'SH0': 2, 'SH1': 3}; S32 = {'SH0': 3, 'SH1': 2}; S33 = {'SH0': 3, 'SH1': 3}
if os.environ.get('C10_ALL'):   # measurement mode: every candidate, optional, to find out which return a verdict
    es = [int(x) for x in os.environ['C10_ALL'].split(',')]
    rs = [int(x) for x in os.environ.get('C10_RES', '1,0,2').split(',')]
    HARNESSES = []
    for r in rs:
        for fam, progs in (('front', ['transpose', 'flip'] if r in (1, 2) else []), ('ev', EV), ('out', [p for p in OUTP if r in (1, 2) or p != 'sum']), ('cl', CL)):
            for p in progs:
                HARNESSES.append(_h(fam, p, r, [(e, {}) for e in es], [], optional=True, timeout=int(os.environ.get('C10_TMO', '300')), gate=False))
else:
    # (e, extra config): e = MAXE. Measured on the loaded machine (s / MB) in the trailing comments; quick = what returns in <= ~2 min.
    HARNESSES = [
     # ---- array::fn front ends vs the view
     _tier('front', 'transpose', 1, [(3, {})], [(4, {})]),                       # 55 s / 910
     _tier('front', 'transpose', 2, [], [(3, {})]),
     _tier('front', 'flip', 1, [(2, {})], [(3, {})]),                            # 38 s / 1271 (MAXE=2)
     # ---- eval(view), depth 1
     _tier('ev', 'transpose', 2, [(3, {})], [(4, {})]),                          # 40 s / 717
     _tier('ev', 'transpose', 1, [], [(3, {})]), _tier('ev', 'transpose', 0, [], [(3, {})]),
     _tier('ev', 'transpose_none', 0, [(3, {})], [(4, {})]),                     # 23 s / 892
     _tier('ev', 'transpose_none', 1, [], [(3, {})]), _tier('ev', 'transpose_none', 2, [], [(3, {})]),
     _tier('ev', 'flatten', 1, [(3, {})], [(4, {})]), _tier('ev', 'flatten', 2, [], [(3, {})]),       # 23 s / 849
     _tier('ev', 'flatten', 0, [], [(2, {})], mem_gb=6),                         # dynamic_ndarray result: 154 s / 5042 at MAXE=2
     _tier('ev', 'reshape', 0, [(2, {})], [(3, {}), (4, {})]), _tier('ev', 'reshape', 1, [], [(3, {})]),       # MAXE=2 44 s / 962; MAXE=3 57-104 s / 1556
     _tier('ev', 'invert', 1, [(3, {})], [(4, {})]), _tier('ev', 'invert', 0, [], [(3, {})]),         # 46 s / 851
     _tier('ev', 'flip', 1, [(2, {})], [(3, {})]), _tier('ev', 'flip', 0, [], [(3, {})]), _tier('ev', 'flip', 2, [], [(3, {})]),   # 28 s / 1249 (MAXE=2); vector result 115-168 s / 3.8 GB at MAXE=3
     _tier('ev', 'slice', 0, [(2, {})], [(3, {})]), _tier('ev', 'slice', 1, [], [(3, {})]),           # 43 s / 724 (MAXE=2)
     _tier('ev', 'reshape0', 0, [(2, {})], [(2, {})]), _tier('ev', 'reshape0', 1, [(2, {})], [(2, {})]),   # 0-d result of reshape to the empty shape
     _tier('ev', 'slice_empty', 0, [(3, {})], [(4, {})]), _tier('ev', 'slice_empty', 1, [(2, {})], [(3, {})]),   # zero-extent view: shapes only
     _tier('ev', 'add_scalar', 0, [(2, {})], [(3, {})]), _tier('ev', 'add_scalar', 1, [], [(2, {})]),  # 47 s / 2387 (MAXE=2)
     _tier('ev', 'sum', 1, [(2, {})], [(2, {})]),                                # 124 s / 2224 (MAXE=2); MAXE=3: no verdict in 300 s
     # results larger than the operand: default resolver with the open finding excluded (operand capacity 4 / 16), and unexcluded at extents where no overflow is possible
     _tier('ev', 'tile', 3, [(2, dict(KF, SH0=1, SH1=2))], [(2, dict(KF, SH0=2, SH1=1)), (2, dict(KF, SH0=2, SH1=2)), (2, KF)]),   # const (1,2): 36 s / 1104; symbolic MAXE=2: 305 s / 1446
     _tier('ev', 'pad', 3, [(2, dict(KF, SH0=1, SH1=2))], [(2, dict(KF, SH0=2, SH1=1)), (2, dict(KF, SH0=2, SH1=2)), (2, KF)]),    # const (1,2): 48 s / 1240; symbolic MAXE=2: 341 s / 1502
     _tier('ev', 'tile', 0, [], [(2, {}), (3, KF)]), _tier('ev', 'pad', 0, [], [(2, {}), (3, KF)]),  # MAXE=2: 102 / 160 s; MAXE=3 found the counterexample in 150 / 250 s
     # ---- depth 2 / 3
     _tier('ev', 'flip_transpose', 0, [(2, {})], [(3, {})]), _tier('ev', 'flip_transpose', 1, [], [(2, {})]),                     # 26 s / 707
     _tier('ev', 'invert_flip', 1, [(2, {})], [(3, {})]), _tier('ev', 'invert_flip', 0, [], [(3, {})]),                           # 43 s / 1257
     _tier('ev', 'reshape_flip', 0, [], [(3, {})]), _tier('ev', 'reshape_flip', 1, [], [(2, {})]),
     _tier('ev', 'add_scalar_transpose', 0, [], [(3, {})]), _tier('ev', 'transpose_add_scalar', 0, [], [(3, {})]),
     _tier('ev', 'slice_transpose', 0, [], [(3, {})]), _tier('ev', 'slice_transpose', 1, [], [(3, {})]),
     _tier('ev', 'transpose_slice', 0, [], [(3, {})]), _tier('ev', 'transpose_slice', 1, [], [(3, {})]),
     _tier('ev', 'invert_flip_reshape', 0, [], [(3, {})]), _tier('ev', 'invert_flip_reshape', 1, [], [(3, {})]),
     _tier('ev', 'transpose_flip_slice', 0, [(2, {})], [(3, {})]), _tier('ev', 'transpose_flip_slice', 1, [], [(3, {})]),         # 60 s / 825 (MAXE=2)
     # ---- caller-supplied output, prior content symbolic
     _tier('out', 'transpose', 1, [(2, {})], [(3, {})]), _tier('out', 'transpose', 0, [], [(3, {})]),                             # 30 s / 584
     _tier('out', 'invert', 0, [(2, {})], [(3, {})]), _tier('out', 'invert', 1, [], [(3, {})]),                                   # 20 s / 561
     _tier('out', 'flip', 0, [], [(3, {})]), _tier('out', 'flip', 1, [], [(2, {})]),
     _tier('out', 'flip_transpose', 0, [], [(3, {})]), _tier('out', 'flip_transpose', 1, [], [(2, {})]),
     _tier('out', 'sum', 1, [], [(3, {})]),                                      # 209 s / 3709
     # ---- composition law eval(outer(inner(a))) == eval(outer(eval(inner(a))))
     _tier('cl', 'flip_transpose', 0, [(2, {})], [(2, {})]), _tier('cl', 'flip_transpose', 1, [], [(2, {})]),                     # 98 s / 1427
     _tier('cl', 'invert_flip', 0, [], [(2, {}), (3, {})]), _tier('cl', 'invert_flip', 1, [], [(2, {})]),
     _tier('cl', 'slice_transpose', 0, [], [(2, {})]), _tier('cl', 'slice_transpose', 1, [], [(2, {})]),
     _tier('cl', 'transpose_add_scalar', 0, [], [(2, {})], mem_gb=6),
     # ---- attempted, no verdict so far (thorough only, optional: a timeout is recorded as no-verdict and not counted)
     _tier('ev', 'reshape_b', 1, [], [(2, {})], optional=True), _tier('ev', 'tile', 1, [], [(2, {})], optional=True), _tier('ev', 'pad', 1, [], [(2, {})], optional=True),
     _tier('ev', 'sum', 0, [], [(2, {})], optional=True), _tier('ev', 'sum_transpose', 1, [], [(2, {})], optional=True), _tier('ev', 'sum_add_scalar', 1, [], [(2, {})], optional=True),
     _tier('ev', 'flatten_pad', 1, [], [(2, {})], optional=True), _tier('ev', 'reshape_flip_pad', 0, [], [(2, {})], optional=True), _tier('cl', 'sum_transpose', 1, [], [(2, {})], optional=True),
    ]
# ---- element type of the evaluated array (view element type differs from the operand's): separate small TU, one per resolver
for _r, _n in ((0, 'old'), (1, 'row'), (2, 'col')):
    KERNELS['C10_etype_%s' % _n] = dict(src='kernels/C10_etype.cpp', flags=['-DNDEBUG', '-DRES=%d' % _r])
def _et(prog, res, quick, thorough, **kw):
    n = {0: 'old', 1: 'row', 2: 'col'}[res]
    US = ['h_etype.0:18', 'k_fill_u8.0:18', 're:evaluator_t:18']
    return dict(name='et_%s_%s' % (prog, n), src='harnesses/C10_etype.c', func='h_etype', kernels=['C10_etype_%s' % n], unwind=6,
                bounds='uint8 operand, unsigned scalar (view element type unsigned != operand element type), resolver %s; shape symbolic with extents 1..MAXE or the per-query constant SH0,SH1; '
                       'data, scalar and index symbolic; asserted: evaluated element == view element == (unsigned)a[i]+s and the evaluated array stores 4-byte elements' % n,
                quick=[dict(c, PROG=prog, RES=res, _unwindset=US) for c in quick], thorough=[dict(c, PROG=prog, RES=res, _unwindset=US) for c in thorough], **kw)
if not os.environ.get('C10_ALL'):
    HARNESSES += [
     _et('adds_h', 0, [{'MAXE': 2}], [{'MAXE': 3, '_mem_gb': 14}], mem_gb=8), _et('adds_h', 1, [], [{'MAXE': 2}], mem_gb=14), _et('adds_h', 2, [], [{'MAXE': 2}], mem_gb=14, optional=True),
     _et('adds_flip_h', 0, [], [{'MAXE': 2}], mem_gb=14), _et('adds_f', 0, [{'MAXE': 3}], [{'MAXE': 3}], mem_gb=6), _et('adds_f', 1, [{'MAXE': 3}], [{'MAXE': 3}]),
     # dynamic operand (the resolver branch "dynamic view over a dynamic array"): utl::vector-backed ndarray_t returns a verdict (850 s / 12 GB at the constant shape (1,2)): thorough tier;
     # std::vector-backed dynamic_ndarray: no verdict in 900 s (formula construction) - optional
     _et('adds_u', 0, [], [{'MAXE': 2, 'SH0': 1, 'SH1': 2}, {'MAXE': 2, 'SH0': 2, 'SH1': 1}], mem_gb=14, timeout=3000),
     _et('adds_d', 0, [], [{'MAXE': 2, 'SH0': 1, 'SH1': 2}], mem_gb=14, timeout=1800, optional=True),
    ]
_WHAT_KF = ('array::eval(view) with its DEFAULT resolver template argument (eval_t) chooses the result buffer from the OPERAND type: over a hybrid operand of capacity C the result is a hybrid array of '
            'capacity C even for views that are larger than their operand (tile, pad). The refused resize leaves the result at its default shape, the evaluator returns early (shape mismatch: '
            'nmtools_verif_eval_shape_mismatch and the capacity hook fire) and eval returns an unwritten array of shape (1,1) instead of the view\'s shape. array::tile / array::pad (RowMajorResolver) are not affected. ')
PENDING_FINDINGS = [
 dict(id='C10-eval-default-resolver-capacity', harness='ev_tile_old', exclude_define='KF_C10_EVAL_DEFAULT_RESOLVER_CAPACITY', witness_config={'MAXE': 3, 'RES': 0},
      witness_inputs=['0x3', '0x3', '0x0', '0x0', '0x0', '0x0', '0x0', '0x0', '0x0', '0x0', '0x0', '0x2', '0x1', '0x0', '0x1'],
      what=_WHAT_KF + 'Witness: capacity 16, a of shape (3,3), tile reps (2,1): the view has shape (6,3) = 18 elements.'),
 dict(id='C10-eval-default-resolver-capacity', harness='ev_pad_old', exclude_define='KF_C10_EVAL_DEFAULT_RESOLVER_CAPACITY', witness_config={'MAXE': 3, 'RES': 0},
      witness_inputs=['0x3', '0x3', '0x0', '0x0', '0x0', '0x0', '0x0', '0x1', '0x0', '0x0', '0x0', '0x1', '0x1', '0x1', '0x0', '0x0', '0x0', '0x2'],
      what=_WHAT_KF + 'Witness: capacity 16, a of shape (3,3) padded by (1,1,1,0): shape (5,4) = 20 elements.'),
 dict(id='C10-eval-default-resolver-capacity', harness='ev_tile_old4', exclude_define='KF_C10_EVAL_DEFAULT_RESOLVER_CAPACITY', witness_config={'MAXE': 2, 'RES': 3},
      witness_inputs=['0x1', '0x2', '0x0', '0x0', '0x0', '0x0', '0x2', '0x2', '0x0', '0x1'],
      what=_WHAT_KF + 'Witness: capacity 4, a of shape (1,2), tile reps (2,2): the view has shape (2,4) = 8 elements (inside both the symbolic MAXE=2 and the constant-shape SH0=1,SH1=2 domains).'),
 dict(id='C10-eval-default-resolver-capacity', harness='ev_pad_old4', exclude_define='KF_C10_EVAL_DEFAULT_RESOLVER_CAPACITY', witness_config={'MAXE': 2, 'RES': 3},
      witness_inputs=['0x1', '0x2', '0x0', '0x0', '0x0', '0x0', '0x1', '0x1', '0x1', '0x0', '0x0', '0x2', '0x0'],
      what=_WHAT_KF + 'Witness: capacity 4, a of shape (1,2) padded by (1,1,1,0): shape (3,3) = 9 elements (inside both the symbolic MAXE=2 and the constant-shape SH0=1,SH1=2 domains).'),
]
OUTSIDE = [
 'PROGRAMS ATTEMPTED AND THEIR OUTCOME (hybrid 2-d operand; s = wall seconds on the loaded machine; res = old (eval default eval_t) / row / col):',
 ' depth 1: transpose(axes) holds MAXE=3 all res (40-71 s); transpose(None) holds MAXE=3 all res (20-40 s); flatten holds MAXE=3 row/col (23 s), old (dynamic_ndarray result) only MAXE=2 (154 s, 5 GB); '
 'reshape(2-entry target incl. -1) holds MAXE=3 old/row (57-69 s); reshape(bounded-dim target of 1..4 entries) NO VERDICT (out of memory at 6 GB during propositional reduction, also at MAXE=2 and at the constant shape 2x3: 8.4M variables / 41M clauses); '
 'flip(axis) holds MAXE=3 old 38-73 s, row/col (std::vector result) 115-168 s / 3.8 GB; slice holds MAXE=3 old 89 s, row/col 180-200 s; unary ufunc invert holds MAXE=3 (45 s); '
 'ufunc with scalar add(a,s) holds MAXE=3 old (140 s, 3.9 GB), row only MAXE=2 (66 s) or constant shape (42 s) - MAXE=3 out of memory; sum(axis) holds MAXE=2 row (124 s), MAXE=3 only with a caller-supplied output (209 s), old (dynamic result) out of memory; '
 'tile / pad: old holds with the pending finding excluded (operand capacity 4: 36-48 s per constant shape, 305-341 s symbolic MAXE=2) and unexcluded at MAXE=2 with capacity 16 (102 / 160 s); row/col (std::vector result that grows) NO VERDICT (out of memory at MAXE=2)',
 ' depth 2: flip(transpose) holds old MAXE=3 117 s, row MAXE=2 43 s; invert(flip) holds MAXE=3 old 73 s / row 166 s; reshape(flip) holds old MAXE=3 190 s, row MAXE=2 101 s; add_scalar(transpose) / transpose(add_scalar) hold old MAXE=3 67 / 163 s, row MAXE=2 104-112 s; '
 'slice(transpose) / transpose(slice) hold MAXE=3 old 96-101 s, row 248-255 s; sum(transpose), sum(add(a,s)) NO VERDICT (timeout 200-300 s at MAXE=2 and 3); flatten(pad) NO VERDICT (out of memory)',
 ' depth 3: invert(flip(reshape)) holds MAXE=3 old 176 s / row 250 s; transpose(flip(slice)) holds MAXE=3 old 232 s / row 272 s, MAXE=2 60 s; reshape(flip(pad)) NO VERDICT (timeout / out of memory)',
 ' caller-supplied output: transpose, invert hold MAXE=3 (38-55 s); flip, flip(transpose) hold old MAXE=3 (75-92 s), row MAXE=2 (99-110 s); sum holds row MAXE=3 (209 s)',
 ' composition law: flip(transpose), invert(flip), slice(transpose) hold MAXE=2 old and row (94-146 s), invert(flip) old also MAXE=3 (224 s); transpose(add_scalar) holds old MAXE=2 (175 s, 4.3 GB), row out of memory; sum(transpose) NO VERDICT (timeout)',
 'multi-operand broadcast compositions such as sum(transpose(a)*b, axis): not attempted here - a 3-operand broadcast composition gave no verdict in 900 s in the feasibility study and a single binary broadcast ufunc already needs 2.2 GB (C14)',
 'ufuncs with multiplication (square, multiply): equality of two multiplier circuits over symbolically selected elements did not return in 300 s (ev_square at MAXE=3, all resolvers); invert / add are used instead',
 'view::flip does not accept a maybe-view operand (compile error in index/flip.hpp): in depth-3 chains the inner maybe view (reshape, pad) is unwrapped by the kernel',
 'operands other than the hybrid 2-d kind as eval input (fixed-shape, clipped, dynamic operands; their static traits are C11); result kinds reached: hybrid (bounded buffer + fixed dim), std::vector buffer + fixed dim, bounded buffer + clipped 1-d shape (flatten), dynamic_ndarray (old resolver: flatten, sum)',
 'a caller-supplied output of the WRONG shape (the evaluator returns silently): the property only speaks about outputs of the right shape; the early return itself is an obligation (NMV-HOOK eval_shape_mismatch) in every query',
 'extents > 4, dims other than 2 for the operand, operations of C16/C17 (linear algebra, pooling) as programs',
]
ASSUMPTIONS = [
 'oracle is differential: eager result vs lazy view computed in the same kernel call; that the lazy view equals NumPy is C03-C08 (only the lazy SHAPE is pinned to NumPy here, to make the symbolic index range over the whole result)',
 'RES=1/2 pass RowMajorResolver / ColumnMajorResolver exactly as the array::fn front ends do (front_* harnesses call array::transpose / array::flip themselves)',
 'slices with empty selections are excluded from the argument domain (open finding of C05; only the index domain depends on it)',
 'pending finding excluded where stated: results larger than the operand capacity under eval\'s default resolver (KF_C10_EVAL_DEFAULT_RESOLVER_CAPACITY)',
]
CLAIM = dict(
 text='For every program of the list that returned a verdict (see outside_the_claim for the complete attempt log) - depth-1 transpose, reshape, flatten, flip, slice, tile, pad, unary ufunc, ufunc with scalar, sum over an axis; '
      'depth-2/3 chains of them - over a hybrid 2-d operand with shape, data, every argument and the result index symbolic, the solver shows: the array returned by eval(view) (and by the array::transpose / array::flip front ends) '
      'exists, has the view\'s dim and shape and at every index the view\'s element, for the default, the row-major and the column-major result resolver; a caller-supplied output of the right shape with symbolic prior content '
      'ends up equal to the view at every index; evaluating outer(inner(a)) once equals evaluating inner first and applying outer to the concrete result; the evaluated array stores the element type of the VIEW when it differs from that of the operand (uint8 operand + unsigned scalar: hybrid and fixed operands; utl-dynamic operand in the thorough tier); a zero-extent view (a[b:b, c:d]) and a 0-d result (reshape of one element to ()) are evaluated to arrays of exactly that shape; and the evaluator never returns early on a shape mismatch nor asks a bounded '
      'buffer to exceed its capacity - except for the pending finding (default resolver, results larger than the operand, tile/pad), whose region is excluded and whose witness is replayed.',
 note='Bounded: extents 1..2/3 (quick) and 1..3/4 (thorough) per program as listed in each query; programs are enumerated (types). Programs without a verdict are listed, not claimed. '
      'Trusted: clang-14 -O1 lowering, engine/ll2c.py, CBMC; validated per run by gate and witness assertions.')
