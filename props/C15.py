KERNELS = {'C15_index': dict(src='kernels/C15_index.cpp', flags=['-DNDEBUG']),
           'C15_views': dict(src='kernels/C15_views.cpp', flags=['-DNDEBUG'])}
SH = 'shapes are static_vector<size_t,4> of symbolic length 0..4 with symbolic extents 1..MAXE; '


def _i(name, bounds, unwind=7, quick=None, thorough=None, **kw):
    return dict(name=name, src='harnesses/C15.c', func='h_' + name, kernels=['C15_index'], unwind=unwind, bounds=SH + bounds,
                quick=quick or [{'MAXE': 4}], thorough=thorough or [{'MAXE': 6}], **kw)


# TEMPORARY: exclusion macros of the pending findings below (see PENDING_FINDINGS); to be moved to known_findings.json by the lead
KF_RESHAPE = {'KF_C15_RESHAPE_SCALAR_TARGET': 1}


HARNESSES = [
 _i('broadcast_shape', 'both operand shapes symbolic (compatible and incompatible)'),
 _i('broadcast_shape3', 'three operand shapes symbolic', quick=[{'MAXE': 3}], thorough=[{'MAXE': 4}]),
 _i('shape_broadcast_to', 'source and target shapes symbolic (target shorter than source, mismatching extents included)'),
 _i('shape_reshape', 'target static_vector<int,4> of symbolic length 0..4 with entries LO..HI symbolic (several -1, -2, 0, count mismatches included)',
    quick=[dict({'MAXE': 4, 'LO': -2, 'HI': 8}, **KF_RESHAPE)], thorough=[dict({'MAXE': 5, 'LO': -3, 'HI': 16}, **KF_RESHAPE)]),
 _i('shape_reshape_maybe', 'maybe<shape> source (Nothing or value, symbolic), target length 1..4 entries LO..HI', quick=[{'MAXE': 3, 'LO': -2, 'HI': 8}]),
 _i('normalize_axis', 'ndim 0..4, axis in [-ndim-2, ndim+1]; (int,int) and (int,size_t) overloads'),
 _i('normalize_axes', 'ndim 0..4, list of 0..4 axes (static_vector<int,4>) and array<int,3>, entries in [-ndim-2, ndim+1], duplicates included'),
 _i('moveaxis_to_transpose', 'source and destination single axes in [-ndim-2, ndim+1]'),
 _i('moveaxis_to_transpose_list', 'source / destination lists of symbolic lengths 0..4, entries in [-ndim-2, ndim+1], duplicates and unequal lengths included',
    quick=[{'MAXE': 4, 'KF_C15_MOVEAXIS_REPEATED_AXIS': 1}], thorough=[{'MAXE': 6, 'KF_C15_MOVEAXIS_REPEATED_AXIS': 1}]),
 _i('shape_pad', 'pad widths static_vector<size_t,8> of symbolic length 0..8, widths 0..3 (unsigned: negative widths are not representable)', unwind=11),
 _i('shape_roll', 'shift in -9..9, axis in [-ndim-2, ndim+1]'),
 _i('shape_roll_list', 'shift/axis lists of symbolic length 0..4, axes in [-ndim-2, ndim+1], duplicates included'),
 _i('shape_resize', 'target static_vector<int,4> length 0..4 entries LO..HI'),
 _i('shape_atleast_nd_maybe', 'maybe<shape> source (Nothing or value), nd 0..4'),
 _i('shape_concatenate', 'both shapes symbolic, axis in [-ndim-2, ndim+1]', quick=[{'MAXE': 4, 'KF_C15_CONCATENATE_AXIS': 1}], thorough=[{'MAXE': 6, 'KF_C15_CONCATENATE_AXIS': 1}]),
 _i('shape_matmul', 'both shapes symbolic (0-d operands, contraction mismatch, batch-broadcast mismatch included)', quick=[{'MAXE': 4, 'KF_C15_MATMUL_0D': 1}], thorough=[{'MAXE': 6, 'KF_C15_MATMUL_0D': 1}]),
]

SV = 'hybrid 2-d source array(s) (capacity 16) with symbolic extents 1..MAXE and symbolic 32-bit data, symbolic result index; '


def _vc(e=3, **kw):
    c = {'MAXE': e, '_unwindset': ['in_data.0:%d' % (e * e + 2), 'k_fill_u32.0:%d' % (e * e + 2), 'k_fill_u32.1:%d' % (e * e + 2)]}; c.update(kw); return c


def _v(name, bounds, func=None, unwind=7, quick=None, thorough=None, **kw):
    return dict(name=name, src='harnesses/C15_views.c', func='h_' + (func or name), kernels=['C15_views'], unwind=unwind, bounds=SV + bounds,
                quick=quick or [_vc(3)], thorough=thorough or [_vc(4)], **kw)


TGT = 'reshape target static_vector<int,4>, entries -2..9 symbolic; target length: '
SYMND = 'symbolic 0..4'
CND = 'a per-query constant ND (quick 1..3, thorough 0..4), enumerated'


def _nd(nds, e=3, **kw): return [_vc(e, ND=n, **dict(KF_RESHAPE, **kw)) for n in nds]


HARNESSES += [
 _v('v_reshape', TGT + SYMND, quick=[_vc(3, **KF_RESHAPE)], thorough=[_vc(4, **KF_RESHAPE)]),
 _v('v_reshape_transpose', TGT + SYMND + '; pipeline transpose(reshape(a, s))', quick=[_vc(3, **KF_RESHAPE)], thorough=[_vc(4, **KF_RESHAPE)]),
 _v('v_reshape_transpose_eval', 'reshape target array<int,2> (fixed length 2), entries -2..9 symbolic; pipeline eval(transpose(reshape(a, s))) into a hybrid result', func='v_reshape_transpose', mem_gb=6,
    quick=_nd((2,), e=3, EVAL=1, _unwind=11), thorough=_nd((2,), e=4, EVAL=1, _unwind=18)),
 _v('v_reshape_transpose_flatten', TGT + CND + '; pipeline flatten(transpose(reshape(a, s)))', mem_gb=6, quick=_nd((1, 2, 3)), thorough=_nd((0, 1, 2, 3, 4))),
 _v('v_reshape_add', 'reshape target array<int,2> (fixed length 2), entries -2..9 symbolic; pipeline add(reshape(a, s), b), b a second symbolic 2-d array (reshape failure and broadcast failure)',
    quick=_nd((2,)), thorough=_nd((2,), e=4)),
 _v('v_broadcast_transpose_sum', 'broadcast target array<size_t,3> (fixed length 3), extents 1..MAXE symbolic; pipeline sum(transpose(broadcast_to(a, t)), 0)'),
 _v('v_matmul_transpose', 'pipeline transpose(matmul(a, b)), contraction extents symbolic; has_value and shape only', quick=[_vc(3, KF_C15_MATMUL_VIEW=1)], thorough=[_vc(4, KF_C15_MATMUL_VIEW=1)]),
 _v('v_moveaxis', 'source/destination axes in [-4, 3]'),
 _v('v_transpose_axes', 'explicit axes array<int,2>, entries in [-4, 3] (out of range, repeated, negative)', quick=[_vc(3, KF_C15_TRANSPOSE_AXES=1)], thorough=[_vc(4, KF_C15_TRANSPOSE_AXES=1)]),
 _v('v_swapaxes', 'axes in [-4, 3]', quick=[_vc(3, KF_C15_SWAPAXES_AXIS=1)], thorough=[_vc(4, KF_C15_SWAPAXES_AXIS=1)]),
 _v('v_expand_dims', 'axis in [-5, 4]', quick=[_vc(3, KF_C15_EXPAND_DIMS_AXIS=1)], thorough=[_vc(4, KF_C15_EXPAND_DIMS_AXIS=1)]),
 _v('v_flip', 'axis in [-4, 3]', quick=[_vc(3, KF_C15_FLIP_AXIS=1)], thorough=[_vc(4, KF_C15_FLIP_AXIS=1)]),
 _v('v_sum', 'reduction axis in [-4, 3]', quick=[_vc(3, KF_C15_REDUCE_AXIS=1)], thorough=[_vc(4, KF_C15_REDUCE_AXIS=1)]),
 _v('v_concatenate', 'two symbolic 2-d operands, axis in [-4, 3] (mismatching off-axis extents included)', quick=[_vc(3, KF_C15_CONCATENATE_VIEW=1)], thorough=[_vc(4, KF_C15_CONCATENATE_VIEW=1)]),
]
OUTSIDE = []
ASSUMPTIONS = []
CLAIM = dict(text='', note='')
