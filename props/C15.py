KERNELS = {'C15_index': dict(src='kernels/C15_index.cpp', flags=['-DNDEBUG'])}
SH = 'shapes are static_vector<size_t,4> of symbolic length 0..4 with symbolic extents 1..MAXE; '


def _i(name, bounds, unwind=7, quick=None, thorough=None, **kw):
    return dict(name=name, src='harnesses/C15.c', func='h_' + name, kernels=['C15_index'], unwind=unwind, bounds=SH + bounds,
                quick=quick or [{'MAXE': 4}], thorough=thorough or [{'MAXE': 6}], **kw)


HARNESSES = [
 _i('broadcast_shape', 'both operand shapes symbolic (compatible and incompatible)'),
 _i('broadcast_shape3', 'three operand shapes symbolic', quick=[{'MAXE': 3}], thorough=[{'MAXE': 4}]),
 _i('shape_broadcast_to', 'source and target shapes symbolic (target shorter than source, mismatching extents included)'),
 _i('shape_reshape', 'target static_vector<int,4> of symbolic length 0..4 with entries LO..HI symbolic (several -1, -2, 0, count mismatches included)',
    quick=[{'MAXE': 4, 'LO': -2, 'HI': 8}], thorough=[{'MAXE': 5, 'LO': -3, 'HI': 16}]),
 _i('shape_reshape_maybe', 'maybe<shape> source (Nothing or value, symbolic), target length 1..4 entries LO..HI', quick=[{'MAXE': 3, 'LO': -2, 'HI': 8}]),
 _i('normalize_axis', 'ndim 0..4, axis in [-ndim-2, ndim+1]; (int,int) and (int,size_t) overloads'),
 _i('normalize_axes', 'ndim 0..4, list of 0..4 axes (static_vector<int,4>) and array<int,3>, entries in [-ndim-2, ndim+1], duplicates included'),
 _i('moveaxis_to_transpose', 'source and destination single axes in [-ndim-2, ndim+1]'),
 _i('moveaxis_to_transpose_list', 'source / destination lists of symbolic lengths 0..4, entries in [-ndim-2, ndim+1], duplicates and unequal lengths included'),
 _i('shape_pad', 'pad widths static_vector<size_t,8> of symbolic length 0..8, widths 0..3 (unsigned: negative widths are not representable)', unwind=11),
 _i('shape_roll', 'shift in -9..9, axis in [-ndim-2, ndim+1]'),
 _i('shape_roll_list', 'shift/axis lists of symbolic length 0..4, axes in [-ndim-2, ndim+1], duplicates included'),
 _i('shape_resize', 'target static_vector<int,4> length 0..4 entries LO..HI'),
 _i('shape_atleast_nd_maybe', 'maybe<shape> source (Nothing or value), nd 0..4'),
 _i('shape_concatenate', 'both shapes symbolic, axis in [-ndim-2, ndim+1]'),
 _i('shape_matmul', 'both shapes symbolic (0-d operands, contraction mismatch, batch-broadcast mismatch included)'),
]
OUTSIDE = []
ASSUMPTIONS = []
CLAIM = dict(text='', note='')
