KERNELS = {'C15_index': dict(src='kernels/C15_index.cpp', flags=['-DNDEBUG']),
           'C15_views': dict(src='kernels/C15_views.cpp', flags=['-DNDEBUG'])}
SH = 'shapes are static_vector<size_t,4> of symbolic length 0..4 with symbolic extents 1..MAXE; '


def _i(name, bounds, unwind=7, quick=None, thorough=None, **kw):
    return dict(name=name, src='harnesses/C15.c', func='h_' + name, kernels=['C15_index'], unwind=unwind, bounds=SH + bounds,
                quick=quick or [{'MAXE': 4}], thorough=thorough or [{'MAXE': 6}], **kw)


# TEMPORARY: exclusion macros of the pending findings below (see PENDING_FINDINGS); to be moved to known_findings.json by the lead
KF_RESHAPE = {'KF_C15_RESHAPE_SCALAR_TARGET': 1}


HARNESSES = [
 _i('broadcast_shape', 'both operand shapes symbolic (compatible and incompatible)'),
 _i('broadcast_shape3', 'three operand shapes symbolic', quick=[{'MAXE': 3}], thorough=[{'MAXE': 4}]),
 _i('shape_broadcast_to', 'source and target shapes symbolic (target shorter than source, mismatching extents included)'),
 _i('shape_reshape', 'target static_vector<int,4> of symbolic length 0..4 with entries LO..HI symbolic (several -1, -2, 0, count mismatches included)',
    quick=[dict({'MAXE': 4, 'LO': -2, 'HI': 8}, **KF_RESHAPE)], thorough=[dict({'MAXE': 5, 'LO': -3, 'HI': 16}, **KF_RESHAPE)]),
 _i('shape_reshape_maybe', 'maybe<shape> source (Nothing or value, symbolic), target length 1..4 entries LO..HI', quick=[{'MAXE': 3, 'LO': -2, 'HI': 8}]),
 _i('normalize_axis', 'ndim 0..4, axis in [-ndim-2, ndim+1]; (int,int) and (int,size_t) overloads'),
 _i('normalize_axes', 'ndim 0..4, list of 0..4 axes (static_vector<int,4>) and array<int,3>, entries in [-ndim-2, ndim+1], duplicates included'),
 _i('moveaxis_to_transpose', 'source and destination single axes in [-ndim-2, ndim+1]'),
 _i('moveaxis_to_transpose_list', 'source / destination lists of symbolic lengths 0..4, entries in [-ndim-2, ndim+1], duplicates and unequal lengths included',
    quick=[{'MAXE': 4, 'KF_C15_MOVEAXIS_REPEATED_AXIS': 1}], thorough=[{'MAXE': 6, 'KF_C15_MOVEAXIS_REPEATED_AXIS': 1}]),
 _i('shape_pad', 'pad widths static_vector<size_t,8> of symbolic length 0..8, widths 0..3 (unsigned: negative widths are not representable)', unwind=11),
 _i('shape_roll', 'shift in -9..9, axis in [-ndim-2, ndim+1]'),
 _i('shape_roll_list', 'shift/axis lists of symbolic length 0..4, axes in [-ndim-2, ndim+1], duplicates included'),
 _i('shape_resize', 'target static_vector<int,4> length 0..4 entries LO..HI'),
 _i('shape_atleast_nd_maybe', 'maybe<shape> source (Nothing or value), nd 0..4 (the result is a heap-backed list: costly)', unwind=6, mem_gb=6, quick=[{'MAXE': 2}], thorough=[{'MAXE': 4}]),
 _i('shape_concatenate', 'both shapes symbolic, axis in [-ndim-2, ndim+1]', quick=[{'MAXE': 4, 'KF_C15_CONCATENATE_AXIS': 1}], thorough=[{'MAXE': 6, 'KF_C15_CONCATENATE_AXIS': 1}]),
 _i('shape_matmul', 'both shapes symbolic (0-d operands, contraction mismatch, batch-broadcast mismatch included)', quick=[{'MAXE': 4, 'KF_C15_MATMUL_0D': 1}], thorough=[{'MAXE': 6, 'KF_C15_MATMUL_0D': 1}]),
]

SV = 'hybrid 2-d source array(s) (capacity 16) with symbolic extents 1..MAXE and symbolic 32-bit data, symbolic result index; '


def _vc(e=3, **kw):
    c = {'MAXE': e, '_unwindset': ['in_data.0:%d' % (e * e + 2), 'k_fill_u32.0:%d' % (e * e + 2), 'k_fill_u32.1:%d' % (e * e + 2)]}; c.update(kw); return c


def _v(name, bounds, func=None, unwind=7, quick=None, thorough=None, **kw):
    return dict(name=name, src='harnesses/C15_views.c', func='h_' + (func or name), kernels=['C15_views'], unwind=unwind, bounds=SV + bounds,
                quick=quick or [_vc(3)], thorough=thorough or [_vc(4)], **kw)


TGT = 'reshape target static_vector<int,4>, entries -2..9 symbolic; target length: '
SYMND = 'symbolic 0..4'
CND = 'a per-query constant ND (quick 1..3, thorough 0..4), enumerated'


def _nd(nds, e=3, **kw): return [_vc(e, ND=n, **dict(KF_RESHAPE, **kw)) for n in nds]


HARNESSES += [
 _v('v_reshape', TGT + SYMND, quick=[_vc(3, **KF_RESHAPE)], thorough=[_vc(4, **KF_RESHAPE)]),
 _v('v_reshape_transpose', TGT + SYMND + '; pipeline transpose(reshape(a, s))', quick=[_vc(3, **KF_RESHAPE)], thorough=[_vc(4, **KF_RESHAPE)]),
 _v('v_reshape_transpose_eval', 'reshape target array<int,2> (fixed length 2), entries -2..9 symbolic; pipeline eval(transpose(reshape(a, s))) into a hybrid result', func='v_reshape_transpose', mem_gb=6,
    quick=_nd((2,), e=3, EVAL=1, _unwind=11), thorough=_nd((2,), e=4, EVAL=1, _unwind=18)),
 _v('v_reshape_transpose_flatten', TGT + CND + '; pipeline flatten(transpose(reshape(a, s)))', mem_gb=6, quick=_nd((1, 2, 3)), thorough=_nd((0, 1, 2, 3, 4))),
 _v('v_reshape_add', 'reshape target array<int,2> (fixed length 2), entries -2..9 symbolic; pipeline add(reshape(a, s), b), b a second symbolic 2-d array (reshape failure and broadcast failure)',
    quick=_nd((2,)), thorough=_nd((2,), e=4)),
 _v('v_broadcast_transpose_sum', 'broadcast target array<size_t,3> (fixed length 3), extents 1..MAXE symbolic; pipeline sum(transpose(broadcast_to(a, t)), 0)'),
 _v('v_matmul_transpose', 'pipeline transpose(matmul(a, b)), contraction extents symbolic; has_value and shape only', quick=[_vc(3, KF_C15_MATMUL_VIEW=1)], thorough=[_vc(4, KF_C15_MATMUL_VIEW=1)]),
 _v('v_moveaxis', 'source/destination axes in [-4, 3]'),
 _v('v_broadcast_to', 'broadcast target static_vector<size_t,4> of symbolic length 0..4, extents 1..MAXE'),
 _v('v_roll', 'shift in -4..4, axis in [-4, 3]', quick=[_vc(3, KF_C15_ROLL_LARGE_SHIFT=1)], thorough=[_vc(4, KF_C15_ROLL_LARGE_SHIFT=1)]),
 _v('v_pad_transpose', 'pad widths static_vector<size_t,8> of symbolic length 0..8, widths 0..2, symbolic pad value; pipeline transpose(pad(a, widths))', unwind=11),
 _v('v_transpose_axes', 'explicit axes array<int,2>, entries in [-4, 3] (out of range, repeated, negative)', quick=[_vc(3, KF_C15_TRANSPOSE_AXES=1)], thorough=[_vc(4, KF_C15_TRANSPOSE_AXES=1)]),
 _v('v_swapaxes', 'axes in [-4, 3]', quick=[_vc(3, KF_C15_SWAPAXES_AXIS=1)], thorough=[_vc(4, KF_C15_SWAPAXES_AXIS=1)]),
 _v('v_expand_dims', 'axis in [-5, 4]', quick=[_vc(3, KF_C15_EXPAND_DIMS_AXIS=1)], thorough=[_vc(4, KF_C15_EXPAND_DIMS_AXIS=1)]),
 _v('v_flip', 'axis in [-4, 3]', quick=[_vc(3, KF_C15_FLIP_AXIS=1)], thorough=[_vc(4, KF_C15_FLIP_AXIS=1)]),
 _v('v_sum', 'reduction axis in [-4, 3]', quick=[_vc(3, KF_C15_REDUCE_AXIS=1)], thorough=[_vc(4, KF_C15_REDUCE_AXIS=1)]),
 _v('v_concatenate', 'two symbolic 2-d operands, axis in [-4, 3] (mismatching off-axis extents included)', quick=[_vc(3, KF_C15_CONCATENATE_VIEW=1)], thorough=[_vc(4, KF_C15_CONCATENATE_VIEW=1)]),
]
# quick-tier trimming (measured under load): the 3 flatten queries -> 2; broadcast_transpose_sum costs 170 s / 3.4-5.3 GB (thorough only; v_broadcast_to covers the failing broadcast in quick)
for _h in HARNESSES:
    if _h['name'] == 'v_reshape_transpose_flatten': _h['quick'] = _nd((2, 3))
    if _h['name'] == 'v_broadcast_transpose_sum': _h['quick'] = []; _h['thorough'] = [_vc(3)]; _h['mem_gb'] = 8; _h['timeout'] = 1800   # 170 s idle-ish, > 300 s under load: thorough only

# ---------------------------------------------------------------------------------------------------------------------------------
# witness_config: the input layout of the view-level harnesses depends on MAXE (number of data cells), so their witnesses are replayed under MAXE=3 whatever the query's MAXE is.
# TEMPORARY (to be moved into known_findings.json or fixed in nmtools by the lead): counterexamples found by the solver and replayed
# natively against the g++ build. Each region is excluded by its macro in the configs above so that the rest of the domain is proved.
_W = lambda *v: ['0x%x' % (x & (2**64 - 1)) for x in v]
PENDING_FINDINGS = [
 dict(id='C15-reshape-scalar-target', harness='shape_reshape', exclude_define='KF_C15_RESHAPE_SCALAR_TARGET',
      witness_inputs=_W(4, 1, 1, 1, 1, 0, 3, 0, 7, -2), witness_config={},
      what='index::shape_reshape(src (1,1,1,1), dst ()) returns Nothing; NumPy accepts an empty target when the element count is 1 (result 0-d). '
           'Region: empty target and src numel == 1. (Introduced by the working-tree repair "empty target -> Nothing"; spec decision needed.)'),
 dict(id='C15-reshape-scalar-target', harness='v_reshape', exclude_define='KF_C15_RESHAPE_SCALAR_TARGET', witness_config={'MAXE': 3},
      witness_inputs=_W(1, 1, 0, 0, 0, 0, 0, 0, 0, 0, 0, 0, -1, 3, 7, -1, 0, 0, 0, 0), what='same defect through view::reshape(a (1,1), target ()): Nothing where NumPy gives a 0-d array'),
 dict(id='C15-reshape-scalar-target', harness='v_reshape_transpose', exclude_define='KF_C15_RESHAPE_SCALAR_TARGET', witness_config={'MAXE': 3},
      witness_inputs=_W(1, 1, 0, 0, 0, 0, 0, 0, 0, 0, 0, 0, 8, 6, -1, 7, 0, 0, 0, 0), what='same defect through transpose(reshape(a (1,1), ()))'),
 dict(id='C15-reshape-scalar-target', harness='v_reshape_transpose_flatten', exclude_define='KF_C15_RESHAPE_SCALAR_TARGET', witness_config={'MAXE': 3, 'ND': 0},
      witness_inputs=_W(1, 1, 0, 0, 0, 0, 0, 0, 0, 0, 0, 0, 8, 6, -1, 7, 0),
      what='same defect through flatten(transpose(reshape(a (1,1), ()))); the witness only applies to the ND=0 query (thorough tier) - for ND >= 1 it is outside the domain and nothing is excluded'),
 dict(id='C15-moveaxis-repeated-axis', harness='moveaxis_to_transpose_list', exclude_define='KF_C15_MOVEAXIS_REPEATED_AXIS', witness_config={},
      witness_inputs=_W(2, 1, 1, 1, 1, 2, 2, -2, -2, -2, 0, -4, -4, 0, -4),
      what='index::moveaxis_to_transpose(shape (1,1), source [-2,-2], destination [-2,0]) returns a value (a non-permutation order); NumPy raises "repeated axis in source/destination". '
           'Region: in-range source/destination lists of equal length with a repeated (normalized) axis.'),
 dict(id='C15-concatenate-axis', harness='shape_concatenate', exclude_define='KF_C15_CONCATENATE_AXIS', witness_config={},
      witness_inputs=_W(0, 2, 2, 2, 2, 0, 4, 4, 4, 3, -1),
      what='index::shape_concatenate does not validate the axis: a negative in-range axis (NumPy: accepted, counted from the end) is treated as "no axis" '
           '(success only if the shapes are equal, and then with the shape of a alone); axis >= ndim and 0-d operands succeed when the shapes are equal (witness: (), (), axis -1 -> success; NumPy raises). '
           'Region: axis < 0 or axis >= ndim.'),
 dict(id='C15-shape-matmul-0d', harness='shape_matmul', exclude_define='KF_C15_MATMUL_0D', witness_config={},
      witness_inputs=_W(2, 1, 4, 4, 3, 0, 1, 1, 1, 1),
      what='index::shape_matmul((1,4), ()) indexes the empty shape (at(bshape,-2): NMV-HOOK index beyond the logical extent, CBMC pointer outside object bounds) and asks a bounded vector to '
           'exceed its capacity; NumPy raises for a 0-d operand. Region: either operand 0-d. Witness extracted with cbmc --trace by hand (the full run reports other properties UNKNOWN in this region) and replayed natively.'),
 dict(id='C15-view-matmul-mismatch', harness='v_matmul_transpose', exclude_define='KF_C15_MATMUL_VIEW', witness_config={'MAXE': 3},
      witness_inputs=_W(2, 2, 0, 0, 0, 0, 0, 0, 0, 0, 0, 3, 1, 0, 0, 0, 0, 0, 0, 0, 0, 0),
      what='view::matmul(a (2,2), b (3,1)) has a value: matmul_t\'s constructor unwraps index::shape_matmul\'s Nothing (matmul.hpp:373) and reports an indeterminate shape; NumPy raises. '
           'Region: contracted extents differ.'),
 dict(id='C15-view-transpose-axes', harness='v_transpose_axes', exclude_define='KF_C15_TRANSPOSE_AXES', witness_config={'MAXE': 3},
      witness_inputs=_W(2, 2, 4, 4, 4, 0, 0, 0, 0, 0, 0, 0, -2, 8, 8, 1, 1),
      what='view::transpose(a (2,2), axes (0,-2)) (repeated axis) has a value; axes are never validated at run time (index::shape_transpose gathers shape[axes[i]]), out-of-range axes index '
           'outside the shape (NMV-HOOK index). NumPy raises. Region: axes that are not a permutation. (Negative axes forming a permutation are handled correctly.)'),
 dict(id='C15-view-swapaxes-axis', harness='v_swapaxes', exclude_define='KF_C15_SWAPAXES_AXIS', witness_config={'MAXE': 3},
      witness_inputs=_W(3, 3, 0, 0, 0, 0, 0, 0, 0, 0, 0, 2, -4, 2, 8, 1, 1),
      what='view::swapaxes(a (3,3), 2, -4): normalize_axis returns Nothing, swapaxes.hpp:31 unwraps it, std::array::at throws std::out_of_range -> terminate. Region: an axis outside [-ndim, ndim).'),
 dict(id='C15-view-expand-dims-axis', harness='v_expand_dims', exclude_define='KF_C15_EXPAND_DIMS_AXIS', witness_config={'MAXE': 3},
      witness_inputs=_W(3, 3, 0, 0, 0, 0, 0, 0, 0, 0, 0, 3, 3, 7, 2, 2),
      what='view::expand_dims(a (3,3), axis 3): index/expand_dims.hpp:51 unwraps normalize_axis\'s Nothing; std::out_of_range -> terminate. Region: axis outside [-(ndim+1), ndim+1).'),
 dict(id='C15-view-flip-axis', harness='v_flip', exclude_define='KF_C15_FLIP_AXIS', witness_config={'MAXE': 3},
      witness_inputs=_W(3, 2, 0, 0, 0, 0, 0, 0, 0, 0, 0, -4, 6, 2, 1, 2),
      what='view::flip(a (3,2), axis -4) has a value and indexes a bounded vector beyond its extent (NMV-HOOK index); NumPy raises AxisError. Region: axis outside [-ndim, ndim).'),
 dict(id='C15-view-reduce-axis', harness='v_sum', exclude_define='KF_C15_REDUCE_AXIS', witness_config={'MAXE': 3},
      witness_inputs=_W(3, 1, 0, 0, 0, 0, 0, 0, 0, 0, 0, 2, 8, 1, 1, 1),
      what='view::sum(a (3,1), axis 2): index/reduce.hpp:31 unwraps normalize_axis\'s Nothing; std::out_of_range -> terminate. Region: reduction axis outside [-ndim, ndim). '
           'Witness extracted with cbmc --trace by hand (UNKNOWN statuses in the full run) and replayed natively.'),
 dict(id='C15-view-concatenate-mismatch', harness='v_concatenate', exclude_define='KF_C15_CONCATENATE_VIEW', witness_config={'MAXE': 3},
      witness_inputs=_W(1, 1, 3, 0, 0, 0, 0, 0, 0, 0, 0, 3, 3, 0, 0, 0, 0, 0, 0, 0, 0, 0, 0, 0, 0, 2, 1),
      what='view::concatenate(a (1,1), b (3,3), axis 0) has a value under NDEBUG (the only check is nmtools_cassert = assert(); without NDEBUG it aborts); negative axes are not supported either '
           '(see C15-concatenate-axis). Region: off-axis extents differ, or axis negative / out of range. Witness extracted by hand as above.'),
 dict(id='C04-roll-shift-beyond-extent', harness='v_roll', exclude_define='KF_C15_ROLL_LARGE_SHIFT', witness_config={'MAXE': 3},
      witness_inputs=_W(2, 2, 16, 0, 0, 0, 16, 16, 16, 16, 16, -4, -1, 0, 0, 0, 0),
      what='(same defect as C04-roll-shift-beyond-extent in known_findings.json, observed through a C15 harness) view::roll(a (2,2), shift -4, axis -1) reads index 2 of an extent-2 axis (NMV-HOOK index) and returns a wrong element: index::roll wraps only once '
           '(normalize_roll_index), NumPy uses shift mod n. Region: |shift| > extent of the rolled axis (correct for -n <= shift <= n).'),
]

OUTSIDE = [
 'extents 0 (the property fixes extents >= 1); dims > 4; extents beyond MAXE; entries outside the listed ranges',
 'index::shape_transpose, shape_tile, shape_repeat: their API has no failure channel (no maybe); shape_repeat only asserts (nmtools_assert) - not checked as "has_value <=> NumPy accepts"',
 'negative pad widths (the pad-width container is unsigned in the harness; nmtools follows ONNX, where negative widths crop)',
 'view pipelines: only 2-d hybrid sources; deep pipelines (eval, add, broadcast/transpose/sum) use FIXED-length targets (array<int,2>, array<size_t,3>) because bounded-vector targets make '
 'eval return a heap-backed dynamic_ndarray (8 GB, no verdict) and add/sum cost > 5 GB per query; view::flip of a maybe view does not compile and is therefore not a pipeline stage',
 'dot / tensordot / vecdot operand mismatches (element pipelines are already at the cost limit, see C16)',
 'the regions listed in PENDING_FINDINGS (excluded by KF_ macros, each with a natively replayed witness)',
 'compile-time (constant) arguments: rejected or folded at compile time, see C09/C11',
]
ASSUMPTIONS = ['kernels are built with -DNDEBUG (assert() compiled out): view::concatenate\'s only check is an assert, see PENDING_FINDINGS',
               'NMV-HOOK obligations are on: an index at or beyond the logical size of a bounded vector, or a refused resize, counts as a failure']
CLAIM = dict(
 text='For bounded shape vectors of symbolic length 0..4 (extents 1..4) and the whole listed argument ranges INCLUDING the invalid part, the solver shows that broadcast_shape (2 and 3 operands), '
      'shape_broadcast_to, shape_reshape (also with a Nothing source), normalize_axis (scalar, list, array; signed and unsigned ndim), moveaxis_to_transpose (scalars and lists), shape_pad, shape_roll '
      '(scalar and lists), shape_resize, shape_atleast_nd (Nothing source), shape_concatenate and shape_matmul return a value exactly when NumPy accepts the arguments, with NumPy\'s result, and that no input '
      'leads to a division by zero, out-of-bounds access, overflow, throw or abort; at the view level, for 2-d hybrid sources with symbolic extents/data/index, that reshape, transpose(reshape), '
      'flatten(transpose(reshape)), add(reshape, b), eval(transpose(reshape)), sum(transpose(broadcast_to)), transpose(matmul), broadcast_to, roll, transpose(pad), moveaxis and the axis-taking single-stage views are Nothing exactly when a stage '
      'is invalid and otherwise give NumPy\'s shape and element - outside the twelve regions of PENDING_FINDINGS, where the solver found natively reproduced violations.',
 note='Bounded: dims 0..4, extents 1..4 (quick) / 1..6 (thorough) at the index level; 2-d sources with extents 1..3 (quick) / 1..4 (thorough) at the view level. '
      'Trusted: clang-14 -O1 lowering, engine/ll2c.py, CBMC; validated per run by gate and witness assertions.')
