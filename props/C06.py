KERNELS = {'C06_broadcast': dict(src='kernels/C06_broadcast.cpp', flags=['-DNDEBUG']),
           'C06_view': dict(src='kernels/C06_view.cpp', flags=['-DNDEBUG'])}
def _pair(bs, bsr, maxd=4, maxe=4, idem=False, **kw):
    c = {'BS': bs, 'BSR': bsr, 'MAXD': maxd, 'MAXE': maxe}
    if idem: c['IDEM'] = 1
    c.update(kw); return c
_ARR = [_pair('k_bs_arr%d_arr%d' % (da, db), 'k_bs_arr%d_arr%d' % (db, da), NA=da, NB=db, idem=(da == db)) for da in (1, 2, 3, 4) for db in (1, 2, 3, 4)]
_ARRDYN = [_pair('k_bs_arr%d_sv' % da, 'k_bs_sv_arr%d' % da, NA=da) for da in (1, 2, 3, 4)] + [_pair('k_bs_arr%d_vec' % da, 'k_bs_vec_arr%d' % da, NA=da, NB=db, NOSYM=1, maxe=3) for da, db in ((1, 3), (3, 0), (4, 1))] + [_pair('k_bs_vec_arr%d' % db, 'k_bs_arr%d_vec' % db, NA=da, NB=db, NOSYM=1, maxe=3) for da, db in ((2, 2), (1, 4))]
P = 'every extent 1..MAXE symbolic; run-time dims %s symbolic; fixed (std::array) dims are per-query constants NA/NB'
HARNESSES = [
 dict(name='pair', src='harnesses/C06.c', func='h_pair', kernels=['C06_broadcast'], unwind=7,
      bounds='index::broadcast_shape(a,b) for static_vector<size_t,4> pairs, std::vector pairs, static_vector with std::vector; ' + P % '0..MAXD' +
             '; checks NumPy success/result, symmetry (swapped call), and with IDEM idempotence bs(a,a)==a and absorption bs(a,bs(a,b))==bs(a,b)',
      quick=[_pair('k_bs_sv_sv', 'k_bs_sv_sv', idem=True)]),
 dict(name='pair_vec', src='harnesses/C06.c', func='h_pair', kernels=['C06_broadcast'], unwind=7,
      bounds='index::broadcast_shape for std::vector x std::vector and static_vector x std::vector (both orders): the dims of the std::vector operands are per-query constants NA/NB '
             '(symbolic std::vector lengths exhaust 6 GB), enumerated over 0..3 x 0..3 (quick: a spread of 6 pairs; thorough: all of 0..4 x 0..4); extents 1..MAXE symbolic',
      quick=[_pair('k_bs_vec_vec', 'k_bs_vec_vec', NA=a, NB=b, NOSYM=1, maxe=3) for a, b in ((0, 2), (1, 1), (2, 3), (3, 1), (4, 2))] +
            [_pair('k_bs_sv_vec', 'k_bs_vec_sv', NB=2, NOSYM=1, maxe=3, maxd=3), _pair('k_bs_vec_sv', 'k_bs_sv_vec', NA=3, NOSYM=1, maxe=3, maxd=3)],
      thorough=[_pair('k_bs_vec_vec', 'k_bs_vec_vec', NA=a, NB=b, NOSYM=1) for a in range(5) for b in range(5)] +
               [_pair('k_bs_sv_vec', 'k_bs_vec_sv', NB=b, NOSYM=1) for b in range(5)] + [_pair('k_bs_vec_sv', 'k_bs_sv_vec', NA=a, NOSYM=1) for a in range(5)]),
 dict(name='pair_arr', src='harnesses/C06.c', func='h_pair', kernels=['C06_broadcast'], unwind=7,
      bounds='index::broadcast_shape(a,b) for std::array<size_t,DA> x std::array<size_t,DB>, every (DA,DB) in 1..4 x 1..4 (16 instantiations, per-query constants); every extent 1..MAXE symbolic; symmetry against the (DB,DA) instantiation; idempotence when DA==DB',
      quick=_ARR),
 dict(name='pair_mixed', src='harnesses/C06.c', func='h_pair', kernels=['C06_broadcast'], unwind=7,
      bounds='index::broadcast_shape for std::array<size_t,DA> (DA=1..4 per-query constant) with static_vector<size_t,4> of symbolic dim 0..MAXD, and with std::vector of per-query constant dim NB (5 (DA,NB) pairs); both argument orders (symmetry)',
      quick=_ARRDYN),
 dict(name='none', src='harnesses/C06.c', func='h_none', kernels=['C06_broadcast'], unwind=7,
      bounds='broadcast_shape(None, s) and (s, None) (None = shape of a number), s a static_vector of dim 0..4, extents 1..MAXE', quick=[{'MAXE': 4}]),
]
OUTSIDE = []
ASSUMPTIONS = []
PENDING_FINDINGS = []
CLAIM = dict(text='TBD', note='TBD')
for _h in HARNESSES:
    for _t in ('quick', 'thorough'):
        for _c in _h.get(_t, []): _c['H_' + _h['func'][2:].upper()] = 1
