KERNELS = {'C06_broadcast': dict(src='kernels/C06_broadcast.cpp', flags=['-DNDEBUG']),
           'C06_view': dict(src='kernels/C06_view.cpp', flags=['-DNDEBUG'])}
def _pair(bs, bsr, maxd=4, maxe=4, idem=False, **kw):
    c = {'BS': bs, 'BSR': bsr, 'MAXD': maxd, 'MAXE': maxe}
    if idem: c['IDEM'] = 1
    c.update(kw)
    if 'vec' in bs:   # std::vector operands: keep the bound of the std::/nmtools loops at max dim + 1, only the harness' own 4-iteration loops get 5
        c['_unwind'] = max(c.get('NA', maxd), c.get('NB', maxd)) + 1
        c['_unwindset'] = ['in_shape4.0:5', 'same.0:5', 'np_bshape.0:5', 'h_pair.0:5', 'h_pair.1:5']
    return c
_ARR = [_pair('k_bs_arr%d_arr%d' % (da, db), 'k_bs_arr%d_arr%d' % (db, da), NA=da, NB=db, idem=(da == db)) for da in (1, 2, 3, 4) for db in (1, 2, 3, 4)]
_ARRDYN = [_pair('k_bs_arr%d_sv' % da, 'k_bs_sv_arr%d' % da, NA=da) for da in (1, 2, 3, 4)] + [_pair('k_bs_arr%d_vec' % da, 'k_bs_vec_arr%d' % da, NA=da, NB=db, NOSYM=1, maxe=3) for da, db in ((1, 3), (3, 0))] + [_pair('k_bs_vec_arr%d' % db, 'k_bs_arr%d_vec' % db, NA=da, NB=db, NOSYM=1, maxe=3) for da, db in ((2, 2),)]
P = 'every extent 1..MAXE symbolic; run-time dims %s symbolic; fixed (std::array) dims are per-query constants NA/NB'
HARNESSES = [
 dict(name='pair', src='harnesses/C06.c', func='h_pair', kernels=['C06_broadcast'], unwind=7,
      bounds='index::broadcast_shape(a,b) for static_vector<size_t,4> pairs, std::vector pairs, static_vector with std::vector; ' + P % '0..MAXD' +
             '; checks NumPy success/result, symmetry (swapped call), and with IDEM idempotence bs(a,a)==a and absorption bs(a,bs(a,b))==bs(a,b)',
      quick=[_pair('k_bs_sv_sv', 'k_bs_sv_sv', idem=True), _pair('k_bs_sv8_sv8', 'k_bs_sv8_sv8', maxd=8, maxe=2, CAP=8, NOSYM=1, _unwind=11)],
      thorough=[_pair('k_bs_sv8_sv8', 'k_bs_sv8_sv8', maxd=6, maxe=3, CAP=8, idem=True, _unwind=11), _pair('k_bs_sv_sv', 'k_bs_sv_sv', maxe=8, idem=True)]),
 dict(name='pair_vec', src='harnesses/C06.c', func='h_pair', kernels=['C06_broadcast'], unwind=7,
      bounds='index::broadcast_shape for std::vector x std::vector and static_vector x std::vector (both orders): the dims of the std::vector operands are per-query constants NA/NB '
             '(symbolic std::vector lengths exhaust 6 GB), enumerated over 0..3 x 0..3 (quick: a spread of 6 pairs; thorough: all of 0..4 x 0..4); extents 1..MAXE symbolic',
      quick=[_pair('k_bs_vec_vec', 'k_bs_vec_vec', NA=a, NB=b, NOSYM=1, maxe=3) for a, b in ((0, 2), (1, 1), (2, 3))] +
            [_pair('k_bs_sv_vec', 'k_bs_vec_sv', NA=2, NB=3, NOSYM=1, maxe=3), _pair('k_bs_vec_sv', 'k_bs_sv_vec', NA=3, NB=1, NOSYM=1, maxe=3)],
      thorough=[_pair('k_bs_vec_vec', 'k_bs_vec_vec', NA=a, NB=b, NOSYM=1) for a in range(5) for b in range(5)] +
               [_pair('k_bs_sv_vec', 'k_bs_vec_sv', NB=b, NOSYM=1, maxd=3, maxe=3) for b in range(4)] + [_pair('k_bs_vec_sv', 'k_bs_sv_vec', NA=a, NOSYM=1, maxd=3, maxe=3) for a in range(4)]),
 dict(name='pair_arr', src='harnesses/C06.c', func='h_pair', kernels=['C06_broadcast'], unwind=7,
      bounds='index::broadcast_shape(a,b) for std::array<size_t,DA> x std::array<size_t,DB>, every (DA,DB) in 1..4 x 1..4 (16 instantiations, per-query constants); every extent 1..MAXE symbolic; symmetry against the (DB,DA) instantiation; idempotence when DA==DB',
      quick=_ARR),
 dict(name='pair_mixed', src='harnesses/C06.c', func='h_pair', kernels=['C06_broadcast'], unwind=7,
      bounds='index::broadcast_shape for std::array<size_t,DA> (DA=1..4 per-query constant) with static_vector<size_t,4> of symbolic dim 0..MAXD, and with std::vector of per-query constant dim NB (5 (DA,NB) pairs); both argument orders (symmetry)',
      quick=_ARRDYN, thorough=[_pair('k_bs_arr4_vec', 'k_bs_vec_arr4', NA=4, NB=1, NOSYM=1, maxe=3), _pair('k_bs_vec_arr4', 'k_bs_arr4_vec', NA=1, NB=4, NOSYM=1, maxe=3)]),
 dict(name='pair_ct', src='harnesses/C06.c', func='h_pair', kernels=['C06_broadcast'], unwind=7,
      bounds='index::broadcast_shape with one compile-time constant operand (tuple of ct: (2,1,3) and (2,3,2,3), per-query constants) against a static_vector of symbolic dim 0..4 / a std::array<.,2>, both orders; '
             'and std::array<clipped_size_t<4>,2> (symbolic values 1..4) with std::array<size_t,3>, both orders; extents 1..MAXE symbolic',
      quick=[_pair('k_bs_ct213_sv', 'k_bs_sv_ct213', NA=3, FIXA='2,1,3'), _pair('k_bs_sv_ct213', 'k_bs_ct213_sv', NB=3, FIXB='2,1,3'), _pair('k_bs_ct2323_sv', 'k_bs_ct2323_sv', NA=4, FIXA='2,3,2,3', NOSYM=1),
             _pair('k_bs_ct213_arr2', 'k_bs_ct213_arr2', NA=3, NB=2, FIXA='2,1,3', NOSYM=1), _pair('k_bs_cl2_arr3', 'k_bs_arr3_cl2', NA=2, NB=3), _pair('k_bs_arr3_cl2', 'k_bs_cl2_arr3', NA=3, NB=2)]),
 dict(name='none', src='harnesses/C06.c', func='h_none', kernels=['C06_broadcast'], unwind=7,
      bounds='broadcast_shape(None, s) and (s, None) (None = shape of a number), s a static_vector of dim 0..4, extents 1..MAXE', quick=[{'MAXE': 4}]),
]
def _u(c):   # std::vector operands: small bound for the std::/nmtools loops, 5 for the harness' own 4-iteration loops
    c['_unwind'] = max([c.get(k, c.get('MAXD', 4)) for k in ('NA', 'NB', 'NC')]) + 1
    c['_unwindset'] = ['in_shape4.0:5', 'same.0:5', 'np_bshape.0:5'] + ['%s.%d:5' % (f, i) for f in ('h_pair', 'h_triple', 'h_sbt', 'h_ibt') for i in range(4)]
    return c
HARNESSES += [
 dict(name='triple', src='harnesses/C06.c', func='h_triple', kernels=['C06_broadcast'], unwind=7,
      bounds='three shapes: variadic broadcast_shape(a,b,c), broadcast_shape(broadcast_shape(a,b),c) and broadcast_shape(a,broadcast_shape(b,c)) (maybe-propagating overloads) against the NumPy fold, including agreement on failure; '
             'static_vector<size_t,4> triples with every dim 0..MAXD and every extent 1..MAXE symbolic; std::array triple (3,1,2); mixed (static_vector, std::array<.,2>, std::vector of constant dim NC); std::vector triples of constant dims',
      quick=[{'B3': 'sv', 'MAXD': 3, 'MAXE': 3}, {'B3': 'arr', 'NA': 3, 'NB': 1, 'NC': 2, 'MAXE': 4}, ] + [_u({'B3': 'mixed', 'NB': 2, 'NC': 1, 'MAXD': 2, 'MAXE': 3, 'T3ONLY': t}) for t in (1,)] + [_u({'B3': 'vec', 'NA': 1, 'NB': 2, 'NC': 2, 'MAXE': 3, 'T3ONLY': t}) for t in (1,)],
      thorough=[_u({'B3': 'mixed', 'NB': 2, 'NC': 1, 'MAXD': 2, 'MAXE': 3, 'T3ONLY': t}) for t in (2, 3)] + [_u({'B3': 'vec', 'NA': 1, 'NB': 2, 'NC': 2, 'MAXE': 3, 'T3ONLY': t}) for t in (2, 3)] + [{'B3': 'sv', 'MAXD': 4, 'MAXE': 4}, {'B3': 'sv8', 'MAXD': 6, 'MAXE': 2, 'CAP': 8, '_unwind': 11}, _u({'B3': 'mixed', 'NB': 2, 'NC': 3, 'MAXD': 3, 'MAXE': 3})] + [_u({'B3': 'vec', 'NA': a, 'NB': b, 'NC': c, 'MAXE': 3, 'T3ONLY': t}) for a, b, c in ((0, 1, 2), (2, 2, 2), (3, 1, 2), (1, 3, 3)) for t in (1, 2, 3)]),
 dict(name='quad', src='harnesses/C06.c', func='h_quad', kernels=['C06_broadcast'], unwind=7,
      bounds='four static_vector shapes through the variadic fold, dims 0..MAXD, extents 1..MAXE symbolic', quick=[{'MAXD': 2, 'MAXE': 3}], thorough=[{'MAXD': 3, 'MAXE': 3}]),
 dict(name='sbt', src='harnesses/C06.c', func='h_sbt', kernels=['C06_broadcast'], unwind=7,
      bounds='index::shape_broadcast_to(a, target): accepted iff NumPy broadcast_to accepts, result == target, free-axes flags; static_vector pairs (dims 0..MAXD symbolic), std::array pairs (per-query constant dims), '
             'mixed static_vector/std::array; extents 1..MAXE symbolic',
      quick=[{'SBT': 'k_sbt_sv_sv', 'MAXD': 4, 'MAXE': 4}] + [{'SBT': 'k_sbt_arr%d_arr%d' % (a, b), 'NA': a, 'NB': b, 'MAXE': 4} for a, b in ((1, 1), (1, 3), (2, 2), (2, 3), (3, 3), (3, 2), (2, 4), (4, 4))] +
            [{'SBT': 'k_sbt_arr2_sv', 'NA': 2, 'MAXD': 4, 'MAXE': 4}, {'SBT': 'k_sbt_sv_arr3', 'NB': 3, 'MAXD': 4, 'MAXE': 4}],
      thorough=[{'SBT': 'k_sbt_sv_sv', 'MAXD': 4, 'MAXE': 6}]),
 dict(name='ibt', src='harnesses/C06.c', func='h_ibt', kernels=['C06_broadcast'], unwind=7,
      bounds='index::broadcast_to(dst index, src shape, dst shape, origin axes) with origin axes from index::origin_axes(shape_broadcast_to(..)) as view::broadcast_to computes them: every broadcastable (src,dst) pair and every in-shape destination index symbolic; '
             'static_vector (dims 0..MAXD), std::array (2->3, 3->3, 1->4)',
      quick=[{'IBT': 'k_ibt_sv', 'MAXD': 3, 'MAXE': 3}, {'IBT': 'k_ibt_arr2_arr3', 'NA': 2, 'NB': 3, 'MAXE': 4}, {'IBT': 'k_ibt_arr3_arr3', 'NA': 3, 'NB': 3, 'MAXE': 4}, {'IBT': 'k_ibt_arr1_arr4', 'NA': 1, 'NB': 4, 'MAXE': 3}],
      thorough=[{'IBT': 'k_ibt_sv', 'MAXD': 4, 'MAXE': 4}]),
]
def _v(c, e=3):
    c['MAXE'] = e; c['_unwindset'] = ['in_cells.0:29', 'k_fill_u32.0:29']; return c
HARNESSES += [
 dict(name='vbt', src='harnesses/C06.c', func='h_vbt', kernels=['C06_view'], unwind=7,
      bounds='view::broadcast_to(hybrid array of dim SD (per-query constant 1..3, capacity 4/16/27), target shape): target kinds static_vector (dim 0..MAXD symbolic), std::array (dim per-query constant); '
             'source extents, target extents 1..MAXE, all element data and the result index symbolic; both accepted and refused targets',
      quick=[_v({'SD': 1, 'VBT': 'k_vbt1_sv', 'MAXD': 3}), _v({'SD': 2, 'VBT': 'k_vbt2_sv', 'MAXD': 3}), _v({'SD': 3, 'VBT': 'k_vbt3_sv', 'MAXD': 3}, 2), _v({'SD': 1, 'VBT': 'k_vbt1_arr3', 'NB': 3}), 
             _v({'SD': 2, 'VBT': 'k_vbt2_arr3', 'NB': 3}), _v({'SD': 2, 'VBT': 'k_vbt2_arr4', 'NB': 4}, 2), _v({'SD': 3, 'VBT': 'k_vbt3_arr2', 'NB': 2}, 2)],
      thorough=[_v({'SD': 2, 'VBT': 'k_vbt2_arr2', 'NB': 2}), _v({'SD': 3, 'VBT': 'k_vbt3_arr3', 'NB': 3}, 2), _v({'SD': 2, 'VBT': 'k_vbt2_sv', 'MAXD': 4}, 3), _v({'SD': 3, 'VBT': 'k_vbt3_sv', 'MAXD': 4}, 3), _v({'SD': 3, 'VBT': 'k_vbt3_arr3', 'NB': 3}, 3), _v({'SD': 2, 'VBT': 'k_vbt2_arr4', 'NB': 4}, 3)]),
 dict(name='vbt0', src='harnesses/C06.c', func='h_vbt0', kernels=['C06_view'], unwind=7,
      bounds='view::broadcast_to(number, static_vector shape of dim 1..MAXD), extents 1..MAXE, value and index symbolic', quick=[{'MAXD': 4, 'MAXE': 3}]),
 dict(name='vba', src='harnesses/C06.c', func='h_vba', kernels=['C06_view'], unwind=7,
      bounds='view::broadcast_arrays(a, b) of hybrid arrays of dims (DA,DB) (per-query constants), every extent 1..MAXE, all data and the result index symbolic; compatible and incompatible shapes',
      quick=[_v({'DA': a, 'DB': b}, 3 if max(a, b) < 3 else 2) for a, b in ((1, 2), (2, 1), (2, 2), (3, 2))],
      thorough=[_v({'DA': a, 'DB': b}, 3 if max(a, b) < 3 else 2) for a, b in ((1, 1), (2, 3), (3, 1))] + [_v({'DA': a, 'DB': b}, 3) for a, b in ((2, 3), (3, 2), (3, 1))] + [_v({'DA': 2, 'DB': 2}, 4)]),
 dict(name='vba3', src='harnesses/C06.c', func='h_vba3', kernels=['C06_view'], unwind=7,
      bounds='view::broadcast_arrays of three hybrid arrays (2-d, 1-d, 3-d), compatible shapes, extents 1..MAXE, data and index symbolic', quick=[], thorough=[_v({}, 2), _v({}, 3)]),
]
OUTSIDE = [
 'std::vector operands of index::shape_broadcast_to / index::broadcast_to and std::vector targets of view::broadcast_to: no verdict, the solver exhausts 6 GB even at dims (1,1), extents <= 2 (result list + std::vector<bool> free-axes flags); the kernels k_sbt_vec_vec / k_ibt_vec / k_vbt2_vec are kept for later',
 'std::vector operands of broadcast_shape with SYMBOLIC dim (exhausts 6 GB): their dims are per-query constants instead (quick: a spread, thorough: all of 0..4 x 0..4)',
 'dims > 4 except the static_vector<size_t,8> pair/triple instantiations (dims 0..8 with extents <= 2, dims 0..6 with extents <= 3 in the thorough tier); extents > 4 (8 for static_vector pairs in the thorough tier)',
 'the 3-argument index::broadcast_to(indices, src_shape, dst_shape) overload: it does not compile (structured binding of 3 names to the maybe<tuple<2>> returned by shape_broadcast_to); no caller in the library',
 'broadcast_arrays with more than three operands; 0-d results of the view level (a number broadcast to shape ()); compile-time constant x compile-time constant shapes (type-level results: C09)',
 'index helpers free_axes / gather / nonzero / logical_not are exercised only through shape_broadcast_to / origin_axes / broadcast_to, not on their own',
]
ASSUMPTIONS = []
PENDING_FINDINGS = []
CLAIM = dict(
 text='For every pair of shapes of dim 0..4 with extents 1..4 (static_vector, every std::array (DA,DB) in 1..4 x 1..4, std::vector with enumerated dims, mixed pairs incl. one compile-time constant or clipped operand, None) '
      'the solver shows: index::broadcast_shape succeeds exactly when the right-aligned extents are equal or 1 and then returns the per-axis maximum; the swapped call agrees; a shape with itself and with the result changes nothing. '
      'For every triple (dims 0..3) the variadic call and both groupings equal the NumPy fold, including agreement on failure; four shapes likewise. shape_broadcast_to accepts exactly NumPy\'s broadcast_to targets and marks prepended/stretched axes; '
      'index::broadcast_to, view::broadcast_to (1-d..3-d hybrid sources, number sources) and view::broadcast_arrays (2 and 3 operands) return at every symbolic index the source element with stretched and prepended axes dropped (symbolic data). No defect found.',
 note='Bounded: dims 0..4 (8 for one static_vector<.,8> instantiation with extents <= 2), extents 1..4 (3 where noted), view sources up to 3-d with extents <= 3 (2 for 3-d in the quick tier). std::vector kinds only with constant dims and only for broadcast_shape. '
      'Trusted: clang-14 -O1 lowering, engine/ll2c.py, CBMC; validated per run by gate and witness assertions.')
for _h in HARNESSES:
    for _t in ('quick', 'thorough'):
        for _c in _h.get(_t, []): _c['H_' + _h['func'][2:].upper()] = 1
