KERNELS = {'C03_rearrange': dict(src='kernels/C03_rearrange.cpp', flags=['-DNDEBUG'])}
def _c(e, **kw):
    c = {'MAXE': e, '_unwindset': ['in_data.0:%d' % (e**3 + 2), 'k_fill_u32.0:%d' % (e**3 + 2)]}; c.update(kw); return c
def _h(name, unwind=8, quick=None, thorough=None, **kw):
    return dict(name=name, src='harnesses/C03.c', func='h_' + name, kernels=['C03_rearrange'], unwind=unwind,
                quick=quick or [_c(3)], thorough=thorough or [_c(4)], **kw)
B3 = 'hybrid 3-d source array (capacity 64), every extent 1..MAXE, all element data, the result index and the arguments are symbolic'
HARNESSES = [
 _h('shape_reshape', bounds='index::shape_reshape on static_vector<.,4>: src dim 1..4 extents 1..MAXE; dst dim 1..4 entries in {-1,1..16} symbolic (valid and element-count-mismatching targets)'),
 _h('reshape3', bounds=B3 + '; target dim 1..4 with entries -1 or >=1 forming a valid target (every position of a single -1)'),
 _h('flatten3', bounds=B3),
 _h('transpose3', bounds=B3 + '; axes: every permutation of (0,1,2)'),
 _h('transpose3_neg', bounds=B3 + '; axes: every permutation given with possibly NEGATIVE entries (each in [-3,2])'),
 _h('transpose3_default', bounds=B3),
 _h('transpose3_twice', bounds=B3 + '; p any permutation, q its inverse'),
 _h('moveaxis3', bounds=B3 + '; source/destination axes in [-3,2]'),
 _h('swapaxes3', bounds=B3 + '; axes in [-3,2]'),
 _h('expand_dims2', bounds='hybrid 2-d source (capacity 16); axis in [-3,2]'),
 _h('squeeze3', bounds=B3 + '; at least one non-unit axis'),
 _h('atleast_nd2', bounds='hybrid 2-d source; nd a per-query constant in 1..4 (atleast_1d/2d/3d/4d)', quick=[_c(3, ND=n) for n in (1, 2, 3, 4)], thorough=[_c(4, ND=n) for n in (1, 2, 3, 4)]),
 _h('flip3', bounds=B3 + '; axis in [-3,2]'),
 _h('flip3_all', bounds=B3 + '; axis=None'),
 _h('flip3_twice', bounds=B3 + '; axis in [-3,2]'),
 _h('moveaxis3_list', bounds=B3 + '; source and destination are lists of two axes, entries in [-3,2], distinct after normalisation'),
 _h('flip3_list', bounds=B3 + '; axis list of two entries in [-3,2], distinct after normalisation'),
]
OUTSIDE = ['source dims other than 2/3 at the view level (dim 4 only in thorough index-level queries)', 'extents > 4', 'compile-time (constant) axes/shapes: see C09',
           'squeeze of an all-ones shape (0-d result) is not asserted', 'invalid arguments: see C15']
CLAIM = dict(
 text='For hybrid 2-d/3-d source arrays with every extent, every argument (targets incl. each position of a single -1, every axis permutation - also written with negative entries -, '
      'every possibly negative axis), all element data and the result index symbolic, the solver shows that reshape, flatten, transpose (explicit/default), '
      'moveaxis, swapaxes, expand_dims, squeeze, atleast_nd and flip (axis / None) return NumPy\'s shape and NumPy\'s element, and that '
      'transpose by p then p^-1 and flip twice restore the array.',
 note='Bounded: source dim 2/3, extents 1..3 (quick) / 1..4 (thorough); atleast_nd with nd enumerated 1..4. Invalid arguments belong to C15. '
      'Trusted: clang-14 -O1 lowering, engine/ll2c.py, CBMC; validated per run by gate and witness assertions.')
