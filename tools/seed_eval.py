#!/usr/bin/env python3
"""Evaluate a seeded change: tools/seed_eval.py <seed dir with patch.diff [demo.cpp]> <property id> [more ids] [--tier quick] [--jobs N] [--suite]
Creates a scratch worktree of /repo HEAD, applies the patch there, (1) builds and runs demo.cpp against the clean and the changed tree,
(2) with --suite runs the affected part of the pinned test-suite (tools/mutant_tests.py), (3) runs the given checks with NMV_REPO pointing at
the changed tree (evidence/replays redirected to <seed dir>/run/), prints and stores the outcome in <seed dir>/result.json, removes the worktree."""
import sys, os, subprocess, json, tempfile, shutil, argparse, time
ap = argparse.ArgumentParser(); ap.add_argument('seed'); ap.add_argument('pids', nargs='*'); ap.add_argument('--tier', default='quick'); ap.add_argument('--jobs', default='6'); ap.add_argument('--suite', action='store_true'); ap.add_argument('--only')
a = ap.parse_args()
seed = os.path.abspath(a.seed); ROOT = os.path.dirname(os.path.dirname(os.path.abspath(__file__)))
wt = tempfile.mkdtemp(prefix='mut-', dir='/var/tmp'); os.rmdir(wt)
res = dict(seed=seed, at=time.strftime('%F %T'))
old = json.load(open(os.path.join(seed, 'result.json'))) if os.path.exists(os.path.join(seed, 'result.json')) else {}
try:
    subprocess.run(['git', '-C', '/repo', 'worktree', 'add', '-q', '--detach', wt, 'HEAD'], check=True)
    r = subprocess.run(['git', '-C', wt, 'apply', os.path.join(seed, 'patch.diff')], capture_output=True, text=True)
    if r.returncode != 0: print('PATCH DOES NOT APPLY', r.stderr); sys.exit(2)
    demo = os.path.join(seed, 'demo.cpp')
    if os.path.exists(demo):
        for name, inc in (('clean', '/repo/include'), ('changed', wt + '/include')):
            exe = os.path.join(wt, 'demo_' + name)
            extra = open(os.path.join(seed, 'demo.flags')).read().split() if os.path.exists(os.path.join(seed, 'demo.flags')) else []   # e.g. -mavx for SIMD demos
            c = subprocess.run(['g++', '-std=c++17', '-O1', '-DNDEBUG'] + extra + ['-I' + inc, demo, '-o', exe], capture_output=True, text=True)
            if c.returncode != 0: res['demo_' + name] = 'compile failed: ' + c.stderr[-500:]; continue
            try:
                d = subprocess.run([exe], capture_output=True, text=True, timeout=120); res['demo_' + name] = dict(rc=d.returncode, out=(d.stdout + d.stderr)[-600:])
            except subprocess.TimeoutExpired: res['demo_' + name] = 'timeout'
        print('demo clean  :', res.get('demo_clean')); print('demo changed:', res.get('demo_changed'))
    if a.suite:
        t = subprocess.run([os.path.join(ROOT, 'tools', 'mutant_tests.py'), wt, '--jobs', a.jobs], capture_output=True, text=True)
        res['suite'] = dict(rc=t.returncode, tail=t.stdout[-1500:]); print('suite (affected part): rc=%d\n%s' % (t.returncode, t.stdout[-800:]))
    res['checks'] = dict(old.get('checks') or {})
    if 'suite' not in res and 'suite' in old: res['suite'] = old['suite']
    for pid in a.pids:
        env = dict(os.environ, NMV_REPO=wt, NMV_OUT=os.path.join(seed, 'run'))
        cmd = [os.path.join(ROOT, 'check'), pid, '--tier', a.tier, '--jobs', a.jobs] + (['--only', a.only] if a.only else [])
        t0 = time.time(); c = subprocess.run(cmd, capture_output=True, text=True, env=env)
        lines = [l for l in c.stdout.split('\n') if l.startswith(('VIOLATION', 'KNOWN-FINDING', 'INCONCLUSIVE', 'OK', '  harness'))]
        res['checks'][pid] = dict(rc=c.returncode, wall_s=round(time.time() - t0), lines=lines[:12])
        print('check %s: rc=%d (%ds)' % (pid, c.returncode, time.time() - t0)); print('\n'.join('   ' + l[:220] for l in lines[:12]))
finally:
    subprocess.run(['git', '-C', '/repo', 'worktree', 'remove', '--force', wt], capture_output=True)
    shutil.rmtree(wt, ignore_errors=True)
json.dump(res, open(os.path.join(seed, 'result.json'), 'w'), indent=1)
