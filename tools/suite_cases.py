#!/usr/bin/env python3
"""Run the pinned test-suite binaries of /repo/_build with doctest's JUnit reporter and compare per-case results with BASELINE.json.
usage: suite_cases.py [--build]   (--build: cmake --build /repo/_build first). Exit 0 iff every baseline stable_pass case passes."""
import json, subprocess, os, sys, tempfile, xml.etree.ElementTree as ET
if '--build' in sys.argv:
    # -j16 got cc1plus OOM-killed on the 62 GB machine (conv / cosine_similarity tests need ~6 GB each)
    r = subprocess.run(['cmake', '--build', '/repo/_build', '-j8'])
    if r.returncode != 0: print('BUILD FAILED'); sys.exit(2)
info = json.loads(subprocess.run(["ctest", "--test-dir", "/repo/_build", "--show-only=json-v1"], capture_output=True, text=True).stdout)
passed = set(); failed = set(); d = tempfile.mkdtemp(prefix='suite-', dir='/var/tmp')
for i, t in enumerate(info['tests']):
    f = os.path.join(d, '%d.xml' % i)
    subprocess.run(t['command'] + ["--reporters=junit", "--out=" + f], capture_output=True, timeout=1800)
    for tc in ET.parse(f).getroot().iter('testcase'):
        name = tc.get('classname', '') + '::' + tc.get('name', '')
        (failed if any(c.tag in ('failure', 'error') for c in tc) else passed).add(name)
b = json.load(open('/root/.vp/BASELINE.json'))
missing = [c for c in b['stable_pass'] if c not in passed]
print('cases passed=%d failed=%d; baseline stable_pass=%d, of which not passing now=%d' % (len(passed), len(failed), len(b['stable_pass']), len(missing)))
for c in missing[:50]: print('  REGRESSION', c)
newfail = sorted(failed - set(b.get('always_fail', [])))
for c in newfail[:50]: print('  NEW-FAIL', c)
sys.exit(1 if missing or newfail else 0)
