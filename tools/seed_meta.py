#!/usr/bin/env python3
"""(Re)writes seeded/<id>/meta.json from notes.md (written by the seeding agent) and result.json (written by tools/seed_eval.py).
Manual fields already present in meta.json (note, needs_to_manifest, breaks, origin) are kept."""
import json, os, sys, glob, re
ROOT = os.path.dirname(os.path.dirname(os.path.abspath(__file__)))
for d in sorted(glob.glob(os.path.join(ROOT, 'seeded', '*'))):
    rj = os.path.join(d, 'result.json')
    if not os.path.exists(rj): continue
    sid = os.path.basename(d); r = json.load(open(rj))
    mp = os.path.join(d, 'meta.json'); m = json.load(open(mp)) if os.path.exists(mp) else {}
    notes = open(os.path.join(d, 'notes.md')).read() if os.path.exists(os.path.join(d, 'notes.md')) else ''
    m.setdefault('id', sid); m.setdefault('property', re.match(r'(C\d+)', sid).group(1))
    m.setdefault('origin', 'independent sub-agent given only the property text and a scratch worktree')
    if notes and 'breaks' not in m:
        paras = [p.strip() for p in notes.split('\n\n') if p.strip()]
        m['breaks'] = ' '.join(paras[:2])[:700]
    if notes and 'needs_to_manifest' not in m:
        mm = re.search(r'(?is)(needs[^\n]*manifest[^\n]*\n.*?)(\n\n|\Z)', notes) or re.search(r'(?is)(needs[^\n]*\n.*?)(\n\n|\Z)', notes)
        m['needs_to_manifest'] = (mm.group(1).strip() if mm else '')[:500]
    caught = []; incon = []
    for pid, c in (r.get('checks') or {}).items():
        for l in c.get('lines', []):
            hm = re.match(r'\s+harness (\S+?)(\[.*\])?: (.*)', l)
            if hm and c['rc'] == 1: caught.append('%s:%s' % (pid, hm.group(1)))
            if l.startswith('INCONCLUSIVE'): incon.append('%s: %s' % (pid, l[:200]))
    prev = [x for x in m.get('caught_by', []) if x.split(' ')[0] not in [c for c in caught]]
    m['caught_by'] = sorted(set(caught + prev))
    if not m['caught_by']: m['outcome'] = 'NOT caught by: ' + ', '.join('%s (rc=%s)' % (p, c['rc']) for p, c in (r.get('checks') or {}).items()) + ('; ' + '; '.join(incon[:2]) if incon else '')
    else: m.pop('outcome', None)
    dc, dch = r.get('demo_clean'), r.get('demo_changed')
    m['ran'] = ['tools/seed_eval.py (scratch worktree of /repo HEAD + patch; NMV_REPO points the checks at it)',
                'demo on clean tree: rc=%s; on changed tree: rc=%s' % (dc.get('rc') if isinstance(dc, dict) else dc, dch.get('rc') if isinstance(dch, dict) else dch),
                'affected part of the pinned suite (tools/mutant_tests.py): ' + ('PASS' if (r.get('suite') or {}).get('rc') == 0 else ('not run' if 'suite' not in r else 'rc=%s %s' % (r['suite'].get('rc'), r['suite'].get('tail', '')[-200:]))),
                'checks: ' + '; '.join('%s rc=%s (%ss)' % (p, c['rc'], c.get('wall_s')) for p, c in (r.get('checks') or {}).items())]
    json.dump(m, open(mp, 'w'), indent=1)
    print(sid, '->', m.get('caught_by') or m.get('outcome'))
