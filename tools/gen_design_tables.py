#!/usr/bin/env python3
"""Regenerates the machine-written part of DESIGN.md (between the GENERATED markers): per-property as-built table,
findings table (known_findings.json) and seeded-change table (seeded/*/meta.json)."""
import json, os, glob, importlib.util, collections
ROOT = os.path.dirname(os.path.dirname(os.path.abspath(__file__)))
out = []
out.append('### 0.1 Per-property checks as built (generated from props/*.py)\n')
out.append('| id | TUs | harnesses | quick / thorough queries | what the solver decides (CLAIM) | outside the claim |')
out.append('|---|---|---|---|---|---|')
ready = set(open(os.path.join(ROOT, 'props', 'READY')).read().split())
for p in sorted(glob.glob(os.path.join(ROOT, 'props', 'C*.py'))):
    pid = os.path.basename(p)[:-3]
    sp = importlib.util.spec_from_file_location('d' + pid, p); m = importlib.util.module_from_spec(sp); sp.loader.exec_module(m)
    nq = sum(len(h.get('quick') or []) for h in m.HARNESSES); nt = sum(len(h.get('thorough') or h.get('quick') or []) for h in m.HARNESSES)
    used = set(k for h in m.HARNESSES for k in h['kernels'])
    claim = getattr(m, 'CLAIM', {}).get('text', '(no claim yet)')
    outside = '; '.join(getattr(m, 'OUTSIDE', []))
    out.append('| %s%s | %d | %d | %d / %d | %s | %s |' % (pid, '' if pid in ready else ' (not yet validated)', len(used), len(m.HARNESSES), nq, nt, claim.replace('|', '/').replace('\n', ' ')[:1400], outside.replace('|', '/').replace('\n', ' ')[:1400]))
kf = json.load(open(os.path.join(ROOT, 'known_findings.json')))['findings']
out.append('\n### 0.2 Findings (generated from known_findings.json)\n')
out.append('`fixed` = repaired in /repo by the named `fix:` commit (the entry suppresses nothing; the harnesses run on the full domain). `open` = genuine defect recorded, not repaired: the check prints a KNOWN-FINDING line while the stored witness still fails natively and proves the complement of the stated region.\n')
out.append('| finding | property | status | commit / harnesses | what fails |')
out.append('|---|---|---|---|---|')
seen = collections.OrderedDict()
for f in kf:
    k = (f['id'], f['status'])
    seen.setdefault(k, dict(f=f, hs=[]))
    if f.get('harness'): seen[k]['hs'].append(f['harness'])
    if len(f['what']) > len(seen[k]['f']['what']): seen[k]['f'] = f
for (fid, st), v in seen.items():
    f = v['f']; hs = sorted(set(v['hs'] + f.get('harnesses', [])))
    out.append('| %s | %s | %s | %s | %s |' % (fid, f['property'], st, (f.get('commit', '') + ' ' + ', '.join(hs[:6]) + (' ...' if len(hs) > 6 else '')).strip(), f['what'].replace('|', '/').replace('\n', ' ')[:600]))
out.append('\n### 0.3 Seeded changes (generated from seeded/*/meta.json)\n')
out.append('Each change was written by an independent sub-agent that saw only the property text and a scratch worktree (or is the reverse of one of the repo\'s own fix commits), compiles, passes the affected part of the pinned suite (tools/mutant_tests.py), and comes with a demonstration that fails with it and passes without it.\n')
out.append('| seed | property | needs to manifest | outcome | note |')
out.append('|---|---|---|---|---|')
for mf in sorted(glob.glob(os.path.join(ROOT, 'seeded', '*', 'meta.json'))):
    m = json.load(open(mf))
    out.append('| %s | %s | %s | %s | %s |' % (m['id'], m['property'], ' '.join(m.get('needs_to_manifest', '').split()).replace('|', '/')[:300], ('caught by ' + ', '.join(m.get('caught_by', []))) if m.get('caught_by') else m.get('outcome', 'NOT caught'), ' '.join(m.get('note', '').split()).replace('|', '/')[:600]))
txt = '\n'.join(out) + '\n'
p = os.path.join(ROOT, 'DESIGN.md'); s = open(p).read()
B = '<!-- BEGIN GENERATED (tools/gen_design_tables.py) -->'; E = '<!-- END GENERATED -->'
if B in s:
    s = s[:s.index(B) + len(B)] + '\n' + txt + s[s.index(E):]
else:
    marker = '---------------------------------------------------------------------------------\n\n## 1. Why this reaches what the test-suite cannot'
    s = s.replace(marker, B + '\n' + txt + E + '\n\n' + marker)
open(p, 'w').write(s); print('DESIGN.md tables regenerated: %d lines' % len(out))
