#!/usr/bin/env python3
"""Run the part of the pinned test-suite that a change can affect, from a scratch worktree of /repo.

usage: mutant_tests.py <worktree> [--jobs N] [--base <commit-ish in the worktree to diff against, default HEAD>]
Finds the headers/sources changed in <worktree> (git diff + untracked), selects from /repo/_build's ninja dependency
database every test object that depends on one of them, compiles exactly those test sources from the worktree with the
suite's own flags (-O2 -DNDEBUG ...), links them per test executable together with that executable's main TU
(doctest registers cases per TU, so a partial executable runs exactly the affected cases) and runs them.
Prints the failing test cases that are NOT in the baseline's always_fail list. Exit 0 = affected tests pass.
Unaffected TUs cannot change behaviour (header-only library), so this equals running the whole suite.
"""
import sys, os, re, json, subprocess, argparse, tempfile, shutil
from concurrent.futures import ThreadPoolExecutor
ap = argparse.ArgumentParser(); ap.add_argument('worktree'); ap.add_argument('--jobs', type=int, default=8); ap.add_argument('--base', default='HEAD'); ap.add_argument('--keep', action='store_true')
a = ap.parse_args()
WT = os.path.abspath(a.worktree); B = '/repo/_build'
changed = subprocess.run(['git', '-C', WT, 'diff', '--name-only', a.base], capture_output=True, text=True).stdout.split()
changed += subprocess.run(['git', '-C', WT, 'ls-files', '--others', '--exclude-standard'], capture_output=True, text=True).stdout.split()
changed = set('/repo/' + c for c in changed if not c.startswith('_build'))
print('changed files:', sorted(changed))
deps = subprocess.run(['ninja', '-C', B, '-t', 'deps'], capture_output=True, text=True).stdout
objs = {}; cur = None
for ln in deps.split('\n'):
    if ln and not ln.startswith(' '):
        cur = ln.split(':')[0]; objs[cur] = []
    elif ln.strip() and cur: objs[cur].append(ln.strip())
cmds = {}
for ln in subprocess.run(['ninja', '-C', B, '-t', 'commands'], capture_output=True, text=True).stdout.split('\n'):
    m = re.search(r' -o (\S+\.o) -c (\S+)$', ln)
    if m: cmds[m.group(1)] = ln
affected = sorted(o for o, d in objs.items() if changed & set(d))
print('affected test objects: %d of %d' % (len(affected), len(objs)))
if not affected: print('no test depends on the change'); sys.exit(0)
groups = {}
for o in affected: groups.setdefault(o.split('/CMakeFiles/')[0] + '/CMakeFiles/' + o.split('/CMakeFiles/')[1].split('/')[0], []).append(o)
scratch = tempfile.mkdtemp(prefix='muttest-', dir='/var/tmp')
def compile_one(o):
    cmd = cmds[o]
    out = os.path.join(scratch, re.sub(r'[^\w.]', '_', o))
    cmd = re.sub(r' -MD -MT \S+ -MF \S+', '', cmd)
    cmd = re.sub(r' -o \S+\.o ', ' -o %s ' % out, cmd)
    cmd = cmd.replace('/repo/', WT + '/').replace(' -g ', ' ')
    r = subprocess.run(cmd, shell=True, capture_output=True, text=True)
    return o, out, r.returncode, r.stderr[-1500:]
bad = False; results = []
with ThreadPoolExecutor(a.jobs) as ex:
    todo = set(affected)
    for g, os_ in groups.items():
        mains = [o for o in objs if o.startswith(g + '/') and re.search(r'/(tests|main)\.cpp\.o$', o)]
        todo |= set(mains)
    comp = {o: (out, rc, err) for o, out, rc, err in ex.map(compile_one, sorted(todo))}
for o, (out, rc, err) in comp.items():
    if rc != 0: print('COMPILE-FAIL', o, err); bad = True
base = json.load(open('/root/.vp/BASELINE.json')); known_fail = set(base.get('always_fail', []))
for g, os_ in groups.items():
    mains = [o for o in objs if o.startswith(g + '/') and re.search(r'/(tests|main)\.cpp\.o$', o)]
    allo = sorted(set(os_) | set(mains))
    if any(comp[o][1] != 0 for o in allo): continue
    exe = os.path.join(scratch, 'exe_' + re.sub(r'\W', '_', g))
    r = subprocess.run(['g++'] + [comp[o][0] for o in allo] + ['-o', exe], capture_output=True, text=True)
    if r.returncode != 0: print('LINK-FAIL', g, r.stderr[-1500:]); bad = True; continue
    r = subprocess.run([exe], capture_output=True, text=True, timeout=3000)
    txt = r.stdout + r.stderr
    fails = re.findall(r'^(\S+\.cpp):\d+:\nTEST CASE:\s+(.*)$', txt, re.M)
    summ = re.findall(r'test cases:.*', txt)
    print(g, 'rc=%d' % r.returncode, summ[-1] if summ else txt[-300:])
    newf = set()
    for f, case in fails:
        f = f.replace(WT + '/', '/repo/')
        if not any(k.startswith(f + '::' + case) or k.startswith(f + '::') and case in k for k in known_fail): newf.add((f, case))
    for f, case in sorted(newf): print('  NEW-FAIL %s :: %s' % (f, case)); bad = True
if not a.keep: shutil.rmtree(scratch, ignore_errors=True)
print('RESULT:', 'FAIL' if bad else 'PASS (affected tests behave as in the baseline)')
sys.exit(1 if bad else 0)
