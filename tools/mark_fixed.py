#!/usr/bin/env python3
"""mark_fixed.py <finding id> <commit> : turn all open entries with that id into one fixed entry (fixed entries suppress nothing)."""
import json, sys, os
ROOT = os.path.dirname(os.path.dirname(os.path.abspath(__file__)))
p = os.path.join(ROOT, 'known_findings.json'); kf = json.load(open(p))
fid, commit = sys.argv[1], sys.argv[2]
opens = [f for f in kf['findings'] if f['id'] == fid and f['status'] == 'open']
if not opens: print('no open entry', fid); sys.exit(1)
what = max((f['what'] for f in opens), key=len)
kf['findings'] = [f for f in kf['findings'] if not (f['id'] == fid and f['status'] == 'open')]
kf['findings'].append(dict(id=fid, property=opens[0]['property'], status='fixed', commit=commit, what=what, harnesses=sorted(set(f['harness'] for f in opens)),
                           line='fixed: property=%s %s %s' % (opens[0]['property'], commit, what[:160])))
json.dump(kf, open(p, 'w'), indent=1); print('fixed', fid, len(opens), 'open entries removed')
