#!/usr/bin/env python3
"""Move PENDING_FINDINGS of props/<id>.py into known_findings.json as open entries (idempotent). usage: promote_findings.py C04 [C05 ...]"""
import json, sys, os, importlib.util
ROOT = os.path.dirname(os.path.dirname(os.path.abspath(__file__)))
kf = json.load(open(os.path.join(ROOT, 'known_findings.json')))
for pid in sys.argv[1:]:
    sp = importlib.util.spec_from_file_location('p', os.path.join(ROOT, 'props', pid + '.py')); m = importlib.util.module_from_spec(sp); sp.loader.exec_module(m)
    fixed_ids = set(x['id'] for x in kf['findings'] if x['status'] == 'fixed')
    for f in getattr(m, 'PENDING_FINDINGS', []):
        if f['id'] in fixed_ids: continue
        if not f.get('harness') or not f.get('exclude_define'): continue   # documentation-only entries (no input region to exclude)   # already repaired in /repo: a fixed entry suppresses nothing
        e = dict(id=f['id'], property=pid, status='open', harness=f['harness'], exclude_define=f['exclude_define'], witness_config=f.get('witness_config', {}),
                 witness_inputs=f['witness_inputs'], what=f['what'])
        if f.get('configs'): e['configs'] = f['configs']
        kf['findings'] = [x for x in kf['findings'] if not (x['id'] == e['id'] and x.get('harness') == e['harness'] and x['status'] == 'open')] + [e]
json.dump(kf, open(os.path.join(ROOT, 'known_findings.json'), 'w'), indent=1)
print(len(kf['findings']), 'entries')
