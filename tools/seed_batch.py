#!/usr/bin/env python3
"""Evaluate several seeded changes: tools/seed_batch.py [--par 2] [--jobs 8] [--suite] <seed>:<pid>[,<pid>...] ...
Each item runs tools/seed_eval.py in its own scratch worktree; logs go to /var/tmp/logs/seed-<seed>.log."""
import sys, os, subprocess, argparse
from concurrent.futures import ThreadPoolExecutor
ROOT = os.path.dirname(os.path.dirname(os.path.abspath(__file__)))
ap = argparse.ArgumentParser(); ap.add_argument('items', nargs='+'); ap.add_argument('--par', type=int, default=2); ap.add_argument('--jobs', default='8'); ap.add_argument('--suite', action='store_true')
a = ap.parse_args(); os.makedirs('/var/tmp/logs', exist_ok=True)
def one(it):
    seed, pids = it.split(':'); cmd = ['python3', os.path.join(ROOT, 'tools', 'seed_eval.py'), os.path.join(ROOT, 'seeded', seed)] + [p for p in pids.split(',') if p] + ['--jobs', a.jobs] + (['--suite'] if a.suite else [])
    with open('/var/tmp/logs/seed-%s.log' % seed, 'w') as f: r = subprocess.run(cmd, stdout=f, stderr=subprocess.STDOUT)
    print(seed, 'done rc=%d' % r.returncode, flush=True)
with ThreadPoolExecutor(a.par) as ex: list(ex.map(one, a.items))
