#!/bin/sh
# copies /tmp/seed/<ID>/out/<n>/ -> /verif/seeded/<ID>-s<n>/ (patch.diff demo.cpp notes.md) if not yet present
for d in /tmp/seed/*/out/*/; do id=$(echo $d | cut -d/ -f4); n=$(basename $d); t=/verif/seeded/$id-s$n; [ -f $d/patch.diff ] || continue; [ -d $t ] && continue; mkdir -p $t; cp $d/patch.diff $d/demo.cpp $d/notes.md $t/ 2>/dev/null; echo imported $t; done
