#!/bin/sh
# copies /tmp/<round>/<ID>/out/<n>/ -> /verif/seeded/<ID>-<tag><n>/ (patch.diff demo.cpp notes.md [demo.flags]) if not yet present
# usage: import_seeds.sh [round dir under /tmp, default seed] [tag, default s]     e.g. import_seeds.sh seed2 r2-
R=${1:-seed}; TAG=${2:-s}
for d in /tmp/$R/*/out/*/; do id=$(echo $d | cut -d/ -f4); n=$(basename $d); t=/verif/seeded/$id-$TAG$n; [ -f $d/patch.diff ] || continue; [ -d $t ] && continue; mkdir -p $t; cp $d/patch.diff $d/demo.cpp $d/notes.md $t/ 2>/dev/null; [ -f $d/demo.flags ] && cp $d/demo.flags $t/; echo imported $t; done
