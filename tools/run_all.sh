#!/bin/sh
# tools/run_all.sh [tier] [jobs] : every claimed check on the tree as it is, one after the other; summary in /var/tmp/logs/all_<tier>.summary
TIER=${1:-quick}; JOBS=${2:-16}; mkdir -p /var/tmp/logs; S=/var/tmp/logs/all_$TIER.summary; : > $S
cd "$(dirname "$0")/.."
for p in $(cat props/READY); do
  t0=$(date +%s); ./check $p --tier $TIER --jobs $JOBS > /var/tmp/logs/all_$TIER.$p.log 2>&1; rc=$?; t1=$(date +%s)
  echo "$p rc=$rc wall=$((t1-t0))s $(grep -c '^KNOWN-FINDING' /var/tmp/logs/all_$TIER.$p.log) known; $(grep -E '^(OK|VIOLATION|INCONCLUSIVE)' /var/tmp/logs/all_$TIER.$p.log | head -n 2 | tr '\n' ' ' | cut -c1-200)" | tee -a $S
done
