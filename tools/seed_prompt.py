#!/usr/bin/env python3
"""Prints the brief for a seeding sub-agent: tools/seed_prompt.py <property id> <round tag>. Creates the scratch worktree /tmp/<round>/<id>/wt.
The agent gets the property record and the worktree only - nothing from /verif."""
import json, sys, os, subprocess
pid, rnd = sys.argv[1], sys.argv[2]
prop = [json.loads(l) for l in open(os.path.join(os.path.dirname(os.path.dirname(os.path.abspath(__file__))), 'properties.jsonl')) if json.loads(l)['id'] == pid][0]
base = '/tmp/%s/%s' % (rnd, pid); wt = base + '/wt'; os.makedirs(base + '/out', exist_ok=True)
if not os.path.exists(wt): subprocess.run(['git', '-C', '/repo', 'worktree', 'add', '-q', '--detach', wt, 'HEAD'], check=True)
avoid = sys.argv[3] if len(sys.argv) > 3 else ''
print(f"""You are helping to evaluate a verification tool for the C++17 header-only library nmtools (a numpy-like ndarray library: lazy views, index math, ufuncs, evaluators).
Your job: write TWO independent, realistic defects ("seeded changes") in the library that break the semantic property below while the library still compiles and its existing test-suite still passes.

Your private scratch git worktree of the library is {wt} (work ONLY there; never touch /repo; do NOT read anything under /verif or /root - the point is that your changes are independent of what the tool already checks).

THE PROPERTY (id {pid}):
{json.dumps(prop, indent=1)}

What makes a good change:
* It breaks a sentence of the property statement for some input inside the property's quantifier - say which sentence, and give the concrete failing input.
* It needs something SPECIFIC to manifest: an unusual but valid input (a particular argument combination, sign, size boundary, operand kind/type combination, layout, dtype), a multi-step sequence of operations, or two cooperating sites that each look fine alone. NOT something that ordinary use or the existing tests would expose at once.
* It looks like a plausible slip a maintainer could make (off-by-one, wrong variable, missing normalisation, swapped operands, wrong comparison, a refactoring that drops a case) - small: 1 to ~10 changed lines in include/nmtools/... Headers only. Do not touch tests/. Do not add new files to the library.
* The two changes must be at different sites / mechanisms.{(' Avoid these sites, they have been used already: ' + avoid) if avoid else ''}
* Everything must still compile (the library is header-only: every test translation unit that includes the changed header must still compile) and the existing tests must still pass.

How to build and run existing tests (doctest; the suite that counts is tests/array, tests/meta, tests/utl and tests/utility as built by /repo/_build; do NOT run cmake, it takes an hour): compile single test files from YOUR worktree together with the main TU of their directory, e.g.
  g++ -DNMTOOLS_TESTING_DOCTEST_DISABLE_BENCH -I{wt}/include -I{wt}/tests/include -I{wt}/tests/array/include -Wno-error -O2 -DNDEBUG --std=c++17 -c {wt}/tests/array/array/flip.cpp -o /tmp/{rnd}/{pid}/flip.o
  (same for {wt}/tests/array/tests.cpp), link the objects with g++ and run the executable. Look at tests/*/CMakeLists.txt for which files are part of the suite (commented-out files are not).
  tests/meta uses -I{wt}/tests/include and the extra flag -DDEFER_STATIC_CHECK (see tests/meta/CMakeLists.txt); tests/utl see tests/utl/*/CMakeLists.txt.
  Each test TU takes 20-90 s to compile. Use at most 3 parallel compile jobs (the machine is shared). Compile and run at least every test file that directly exercises the function you changed (grep the tests for it), and say in notes.md exactly which files you compiled and ran with the change and their results. Someone else will run the complete affected part of the suite afterwards, so be careful: a change that makes any suite test fail or stop compiling is useless.

Deliverables, for change n = 1, 2, in /tmp/{rnd}/{pid}/out/<n>/ :
  patch.diff  - `git -C {wt} diff` of exactly this one change relative to HEAD (make change 1, save the diff, `git -C {wt} checkout -- .`, then make change 2);
  demo.cpp    - a small self-contained program (only the nmtools headers + standard library, no doctest) that compiles with
                `g++ -std=c++17 -O1 -DNDEBUG -I<tree>/include demo.cpp` (if it needs extra flags such as -mavx2 put them in a one-line file demo.flags),
                exits 0 and prints PASS on the UNCHANGED tree and exits non-zero printing what is wrong on the changed tree. Check both yourself. The demo should compare against an independently computed expected result (hand-written numpy/PyTorch/Python semantics), not against the library itself;
  notes.md    - which file/function/line was changed and why it looks plausible; which sentence of the property it breaks; the concrete failing input, observed vs expected; what it needs in order to manifest; why the existing tests do not catch it; which tests you compiled and ran.
Never use `git stash` (the stash is shared between all worktrees of the repository and other people work in sibling worktrees). Leave the worktree clean (git checkout -- .) when done, and remove your object files and executables from /tmp/{rnd}/{pid} except the out/ directory.
Final answer: a short summary of the two changes (file, function, what it needs to manifest) and the test results.""")
